(* Concrete sequential model of the registry side of an iceoryx2 blackboard service: who may
   create a Writer port, who may hold the write handle (EntryHandleMut) of a key, what the
   readers see.  Transcribes, field for field and in the code's order of checks,
     iceoryx2/src/port/writer.rs                        (Writer, WriterSharedState, EntryHandleMut, EntryValueUninit)
     iceoryx2/src/port/reader.rs                        (Reader, EntryHandle, BlackboardValue)
     iceoryx2/src/service/static_config/blackboard.rs   (max_writers: 1, max_readers)
     iceoryx2/src/service/dynamic_config/blackboard.rs  (add_writer_id / release_writer_handle, add_reader_id / release_reader_handle)
     iceoryx2/src/service/resource/blackboard.rs        (Mgmt.map : key -> index, Mgmt.entries[index] = {type_details, offset})
     iceoryx2-bb/lock-free/src/spmc/unrestricted_atomic.rs (has_producer, write_cell, data[2]; sequential use only)
   The concurrent behaviour of UnrestrictedAtomic (the seq-lock) is NOT part of this file.

   Keys are the indices 0..K-1 into `entries` (the key -> index map of the service is fixed at
   creation and injective: builder/blackboard.rs refuses a key that is added twice); a key >= K
   does not exist.  Value types are abstract tags (TypeDetail compared with ==).  Objects held
   by the user (Writer, EntryHandleMut/EntryValueUninit, Reader, EntryHandle) are numbered per
   class in creation order; a dropped object keeps its number, a refused creation consumes none.
   `ORefused` is not an answer of the code: it says that the user does not hold such an object
   (in such a state), so that nothing can be called -- the Rust type system enforces this.

   The second half of the file is the reference specification the property clause
     "At most one writer port and at most one write handle per key exist at a time; creating a
      second one fails without disturbing the first."
   is about. *)
From V Require Import model.Base.

(* static_config/blackboard.rs StaticConfig::new(): `max_writers: 1` (not configurable) *)
Definition max_writers : nat := 1.

(* resource/blackboard.rs Entry{type_details, offset} together with the
   UnrestrictedAtomic<ValueType> that lives at `offset` in the data segment *)
Record entry := {
  e_ty   : N;        (* Entry.type_details *)
  e_c0   : N;        (* UnrestrictedAtomic.data[0] *)
  e_c1   : N;        (* UnrestrictedAtomic.data[1]   (uninitialised at creation: never read before written) *)
  e_wc   : N;        (* UnrestrictedAtomicMgmt.write_cell, starts at 1 *)
  e_prod : bool      (* UnrestrictedAtomicMgmt.has_producer: true = the producer is AVAILABLE *)
}.

(* Creator::add::<ValueType>(key, value): UnrestrictedAtomic::new(value) *)
Definition entry_new (tv : N * N) : entry :=
  {| e_ty := fst tv; e_c0 := snd tv; e_c1 := 0; e_wc := 1; e_prod := true |}.

(* writer.rs Writer + the Arc (Service::ArcThreadSafetyPolicy) around its WriterSharedState *)
Record wrec := {
  w_obj : bool;      (* the user still holds the Writer object *)
  w_rc  : nat        (* strong count of the Arc: the Writer and every EntryHandleMut made by it hold a clone *)
}.

(* EntryHandleMut (HIdle) / EntryValueUninit (HLoan w: w = what value_mut().write() has put into
   the write cell so far, None = nothing; a ghost copy, the model never reads the value from here) *)
Inductive hst := HDead | HIdle | HLoan (w : option N).
Record hrec := { h_w : nat; h_k : nat; h_st : hst }.

(* reader.rs EntryHandle + the BlackboardValue.generation_counter of its last get() *)
Record xrec := { x_k : nat; x_live : bool; x_gen : option N }.

Record bb := {
  max_readers : nat;        (* StaticConfig.max_readers *)
  entries  : list entry;    (* Mgmt.entries *)
  nwriters : nat;           (* dynamic config: writers.len() *)
  nreaders : nat;           (* dynamic config: readers.len() *)
  writers  : list wrec;
  whs      : list hrec;
  readers  : list bool;     (* the user still holds the Reader object *)
  rhs      : list xrec
}.

Definition set_entries (s : bb) (es : list entry) : bb :=
  {| max_readers := max_readers s; entries := es; nwriters := nwriters s; nreaders := nreaders s;
     writers := writers s; whs := whs s; readers := readers s; rhs := rhs s |}.
Definition set_w (s : bb) (n : nat) (ws : list wrec) : bb :=
  {| max_readers := max_readers s; entries := entries s; nwriters := n; nreaders := nreaders s;
     writers := ws; whs := whs s; readers := readers s; rhs := rhs s |}.
Definition set_whs (s : bb) (hs : list hrec) : bb :=
  {| max_readers := max_readers s; entries := entries s; nwriters := nwriters s; nreaders := nreaders s;
     writers := writers s; whs := hs; readers := readers s; rhs := rhs s |}.
Definition set_r (s : bb) (n : nat) (rs : list bool) : bb :=
  {| max_readers := max_readers s; entries := entries s; nwriters := nwriters s; nreaders := n;
     writers := writers s; whs := whs s; readers := rs; rhs := rhs s |}.
Definition set_rhs (s : bb) (xs : list xrec) : bb :=
  {| max_readers := max_readers s; entries := entries s; nwriters := nwriters s; nreaders := nreaders s;
     writers := writers s; whs := whs s; readers := readers s; rhs := xs |}.

(* builder/blackboard.rs Creator::create: one entry per add(); max_readers 0 is adjusted to 1
   (adjust_configuration_to_meaningful_values); no entries -> BlackboardCreateError::NoEntriesProvided
   (None here) *)
Definition bb_new (mr : nat) (init : list (N * N)) : bb :=
  {| max_readers := (if Nat.eqb mr 0 then 1 else mr); entries := map entry_new init;
     nwriters := 0; nreaders := 0; writers := []; whs := []; readers := []; rhs := [] |}.
Definition bb_create (mr : nat) (init : list (N * N)) : option bb :=
  match init with [] => None | _ => Some (bb_new mr init) end.

(* ---------- error enums of the API ---------- *)
Inductive writer_create_error :=            (* writer.rs WriterCreateError *)
| ExceedsMaxSupportedWriters | W_InternalFailure | W_FailedToDeployThreadsafetyPolicy | W_UnableToCreatePortTag.
Inductive entry_handle_mut_error :=         (* writer.rs EntryHandleMutError *)
| HM_EntryDoesNotExist | HM_HandleAlreadyExists.
Inductive reader_create_error :=            (* reader.rs ReaderCreateError *)
| ExceedsMaxSupportedReaders | R_FailedToDeployThreadsafetyPolicy | R_UnableToCreatePortTag.
Inductive entry_handle_error :=             (* reader.rs EntryHandleError *)
| H_EntryDoesNotExist.

Inductive bop :=
| CreateWriter                              (* PortFactoryWriter::create -> Writer::new *)
| DropWriter (i : nat)
| WriterEntry (i k : nat) (ty : N)          (* Writer::entry::<ty>(&k) *)
| DropHandleMut (h : nat)                   (* drop of the EntryHandleMut, or of the EntryValueUninit that owns it *)
| UpdateWithCopy (h : nat) (v : N)          (* EntryHandleMut::update_with_copy *)
| LoanUninit (h : nat)                      (* EntryHandleMut::loan_uninit *)
| WriteLoan (h : nat) (v : N)               (* EntryValueUninit::value_mut().write(v) *)
| AssumeInit (h : nat)                      (* EntryValueUninit::assume_init_and_update (only after WriteLoan) *)
| UpdateLoan (h : nat) (v : N)              (* EntryValueUninit::update_with_copy *)
| DiscardLoan (h : nat)                     (* EntryValueUninit::discard *)
| CreateReader                              (* PortFactoryReader::create -> Reader::new *)
| DropReader (r : nat)
| ReaderEntry (r k : nat) (ty : N)          (* Reader::entry::<ty>(&k) *)
| DropHandle (x : nat)
| Get (x : nat)                             (* EntryHandle::get: value and generation counter *)
| IsUpToDate (x : nat).                     (* EntryHandle::is_up_to_date(&value of the last Get x) *)

Inductive bobs :=
| OOk
| OId (n : nat)
| OWriterErr (e : writer_create_error)
| OHandleMutErr (e : entry_handle_mut_error)
| OReaderErr (e : reader_create_error)
| OHandleErr (e : entry_handle_error)
| OValue (v g : N)
| OBool (b : bool)
| ORefused.

(* ---------- UnrestrictedAtomic<T>, sequential ---------- *)
Definition cell_is0 (c : N) : bool := N.eqb (N.modulo c 2) 0.      (* cell % NUMBER_OF_CELLS *)
(* ptr::write into data[write_cell % 2] (UnrestrictedAtomic::store, first half;
   Producer::__internal_get_ptr_to_write_cell + write) *)
Definition cell_write (e : entry) (v : N) : entry :=
  if cell_is0 (e_wc e)
  then {| e_ty := e_ty e; e_c0 := v; e_c1 := e_c1 e; e_wc := e_wc e; e_prod := e_prod e |}
  else {| e_ty := e_ty e; e_c0 := e_c0 e; e_c1 := v; e_wc := e_wc e; e_prod := e_prod e |}.
(* write_cell.fetch_add(1) (store, second half; Producer::__internal_update_write_cell) *)
Definition cell_bump (e : entry) : entry :=
  {| e_ty := e_ty e; e_c0 := e_c0 e; e_c1 := e_c1 e; e_wc := N.add (e_wc e) 1; e_prod := e_prod e |}.
(* UnrestrictedAtomicMgmt::load: read_cell = write_cell - 1 *)
Definition cell_load (e : entry) : N := if cell_is0 (N.sub (e_wc e) 1) then e_c0 e else e_c1 e.
Definition set_prod (e : entry) (b : bool) : entry :=
  {| e_ty := e_ty e; e_c0 := e_c0 e; e_c1 := e_c1 e; e_wc := e_wc e; e_prod := b |}.

Definition upd_entry (s : bb) (k : nat) (f : entry -> entry) : bb :=
  match nth_error (entries s) k with
  | Some e => set_entries s (upd (entries s) k (f e))
  | None => s
  end.

(* ---------- writers ---------- *)
(* Writer::new: port tag, Arc::new(WriterSharedState{dynamic_writer_handle: None}), LAST
   dynamic_config.add_writer_id (Container::add fails when all max_writers indices are taken);
   on failure the fresh Arc is dropped with handle None: nothing to release *)
Definition create_writer (s : bb) : bb * bobs :=
  if Nat.ltb (nwriters s) max_writers
  then (set_w s (S (nwriters s)) (writers s ++ [{| w_obj := true; w_rc := 1 |}]), OId (length (writers s)))
  else (s, OWriterErr ExceedsMaxSupportedWriters).

(* drop of one Arc clone of the WriterSharedState of writer i; the last one runs
   WriterSharedState::drop = release_writer_handle (Container::remove) *)
Definition arc_release (s : bb) (i : nat) : bb :=
  match nth_error (writers s) i with
  | None => s
  | Some w =>
      let rc := Nat.pred (w_rc w) in
      set_w s (if Nat.eqb rc 0 then Nat.pred (nwriters s) else nwriters s)
            (upd (writers s) i {| w_obj := w_obj w; w_rc := rc |})
  end.

(* drop(Writer): fields in declaration order: shared_state (one Arc clone), writer_details, port_tag *)
Definition drop_writer (s : bb) (i : nat) : bb * bobs :=
  match nth_error (writers s) i with
  | Some w =>
      if w_obj w
      then (arc_release (set_w s (nwriters s) (upd (writers s) i {| w_obj := false; w_rc := w_rc w |})) i, OOk)
      else (s, ORefused)
  | None => (s, ORefused)
  end.

(* Writer::entry: get_entry_offset = (1) key lookup in Mgmt.map, (2) TypeDetail comparison,
   both failing with EntryDoesNotExist; then EntryHandleMut::new = (3) acquire_producer
   (CAS has_producer true -> false) failing with HandleAlreadyExists; the handle clones the Arc *)
Definition writer_entry (s : bb) (i k : nat) (ty : N) : bb * bobs :=
  match nth_error (writers s) i with
  | Some w =>
      if w_obj w then
        match nth_error (entries s) k with
        | None => (s, OHandleMutErr HM_EntryDoesNotExist)
        | Some e =>
            if negb (N.eqb ty (e_ty e)) then (s, OHandleMutErr HM_EntryDoesNotExist)
            else if e_prod e then
              (set_whs (set_w (set_entries s (upd (entries s) k (set_prod e false)))
                              (nwriters s) (upd (writers s) i {| w_obj := true; w_rc := S (w_rc w) |}))
                       (whs s ++ [{| h_w := i; h_k := k; h_st := HIdle |}]),
               OId (length (whs s)))
            else (s, OHandleMutErr HM_HandleAlreadyExists)
        end
      else (s, ORefused)
  | None => (s, ORefused)
  end.

Definition set_hst (s : bb) (h : nat) (r : hrec) (st : hst) : bb :=
  set_whs s (upd (whs s) h {| h_w := h_w r; h_k := h_k r; h_st := st |}).

(* drop(EntryHandleMut): fields in declaration order: producer (Producer::drop =
   __internal_release_producer: has_producer := true), entry_id, _shared_state (one Arc clone).
   Dropping an EntryValueUninit drops the EntryHandleMut it owns. *)
Definition drop_handle_mut (s : bb) (h : nat) : bb * bobs :=
  match nth_error (whs s) h with
  | Some r =>
      match h_st r with
      | HDead => (s, ORefused)
      | _ => (arc_release (upd_entry (set_hst s h r HDead) (h_k r) (fun e => set_prod e true)) (h_w r), OOk)
      end
  | None => (s, ORefused)
  end.

(* the operations on a live handle: what state it must be in, what happens to the cell, the new state *)
Definition handle_op (s : bb) (h : nat) (ok : hst -> option hst) (f : entry -> entry) : bb * bobs :=
  match nth_error (whs s) h with
  | Some r =>
      match ok (h_st r) with
      | Some st' => (upd_entry (set_hst s h r st') (h_k r) f, OOk)
      | None => (s, ORefused)
      end
  | None => (s, ORefused)
  end.

Definition when_idle (st' : hst) (st : hst) : option hst := match st with HIdle => Some st' | _ => None end.
Definition when_loan (st' : hst) (st : hst) : option hst := match st with HLoan _ => Some st' | _ => None end.
Definition when_written (st' : hst) (st : hst) : option hst := match st with HLoan (Some _) => Some st' | _ => None end.

(* ---------- readers ---------- *)
(* Reader::new: port tag, Arc::new(ReaderSharedState), LAST dynamic_config.add_reader_id *)
Definition create_reader (s : bb) : bb * bobs :=
  if Nat.ltb (nreaders s) (max_readers s)
  then (set_r s (S (nreaders s)) (readers s ++ [true]), OId (length (readers s)))
  else (s, OReaderErr ExceedsMaxSupportedReaders).

(* Reader::drop: release_reader_handle at once (the EntryHandles keep the ReaderSharedState,
   i.e. the mapped memory, alive; they hold no slot) *)
Definition drop_reader (s : bb) (r : nat) : bb * bobs :=
  match nth_error (readers s) r with
  | Some true => (set_r s (Nat.pred (nreaders s)) (upd (readers s) r false), OOk)
  | _ => (s, ORefused)
  end.

(* Reader::entry: get_entry_offset (key lookup, then type comparison), then EntryHandle::new *)
Definition reader_entry (s : bb) (r k : nat) (ty : N) : bb * bobs :=
  match nth_error (readers s) r with
  | Some true =>
      match nth_error (entries s) k with
      | None => (s, OHandleErr H_EntryDoesNotExist)
      | Some e =>
          if negb (N.eqb ty (e_ty e)) then (s, OHandleErr H_EntryDoesNotExist)
          else (set_rhs s (rhs s ++ [{| x_k := k; x_live := true; x_gen := None |}]), OId (length (rhs s)))
      end
  | _ => (s, ORefused)
  end.

Definition drop_handle (s : bb) (x : nat) : bb * bobs :=
  match nth_error (rhs s) x with
  | Some r => if x_live r
              then (set_rhs s (upd (rhs s) x {| x_k := x_k r; x_live := false; x_gen := x_gen r |}), OOk)
              else (s, ORefused)
  | None => (s, ORefused)
  end.

(* EntryHandle::get: generation_counter = write_cell, value = load() *)
Definition get (s : bb) (x : nat) : bb * bobs :=
  match nth_error (rhs s) x with
  | Some r =>
      if x_live r then
        match nth_error (entries s) (x_k r) with
        | Some e => (set_rhs s (upd (rhs s) x {| x_k := x_k r; x_live := true; x_gen := Some (e_wc e) |}),
                     OValue (cell_load e) (e_wc e))
        | None => (s, ORefused)
        end
      else (s, ORefused)
  | None => (s, ORefused)
  end.

(* EntryHandle::is_up_to_date: write_cell == value.generation_counter *)
Definition is_up_to_date (s : bb) (x : nat) : bb * bobs :=
  match nth_error (rhs s) x with
  | Some r =>
      if x_live r then
        match x_gen r, nth_error (entries s) (x_k r) with
        | Some g, Some e => (s, OBool (N.eqb (e_wc e) g))
        | _, _ => (s, ORefused)
        end
      else (s, ORefused)
  | None => (s, ORefused)
  end.

Definition step (s : bb) (o : bop) : bb * bobs :=
  match o with
  | CreateWriter => create_writer s
  | DropWriter i => drop_writer s i
  | WriterEntry i k ty => writer_entry s i k ty
  | DropHandleMut h => drop_handle_mut s h
  | UpdateWithCopy h v => handle_op s h (when_idle HIdle) (fun e => cell_bump (cell_write e v))
  | LoanUninit h => handle_op s h (when_idle (HLoan None)) (fun e => e)
  | WriteLoan h v => handle_op s h (when_loan (HLoan (Some v))) (fun e => cell_write e v)
  | AssumeInit h => handle_op s h (when_written HIdle) cell_bump
  | UpdateLoan h v => handle_op s h (when_loan HIdle) (fun e => cell_bump (cell_write e v))
  | DiscardLoan h => handle_op s h (when_loan HIdle) (fun e => e)
  | CreateReader => create_reader s
  | DropReader r => drop_reader s r
  | ReaderEntry r k ty => reader_entry s r k ty
  | DropHandle x => drop_handle s x
  | Get x => get s x
  | IsUpToDate x => is_up_to_date s x
  end.

Fixpoint run (s : bb) (h : list bop) : bb * list bobs :=
  match h with
  | [] => (s, [])
  | o :: t => let (s1, ob) := step s o in let (s2, obs) := run s1 t in (s2, ob :: obs)
  end.

(* the state reached from a fresh service by history h *)
Definition reach (mr : nat) (init : list (N * N)) (h : list bop) : bb := fst (run (bb_new mr init) h).

(* ================= vocabulary of the property statements ================= *)
Definition count_if {A} (p : A -> bool) (l : list A) : nat := length (filter p l).

Definition h_live (r : hrec) : bool := match h_st r with HDead => false | _ => true end.
(* Writer ports the user holds *)
Definition live_writers (s : bb) : nat := count_if w_obj (writers s).
(* write handles (EntryHandleMut or EntryValueUninit) the user holds for key k / made by writer i / at all *)
Definition live_handles_on (s : bb) (k : nat) : nat := count_if (fun r => h_live r && Nat.eqb (h_k r) k) (whs s).
Definition live_handles_of (s : bb) (i : nat) : nat := count_if (fun r => h_live r && Nat.eqb (h_w r) i) (whs s).
Definition live_handles (s : bb) : nat := count_if h_live (whs s).
Definition live_readers (s : bb) : nat := count_if (fun b : bool => b) (readers s).

(* the operations that create a port or a handle, and their refusals *)
Definition is_create (o : bop) : bool :=
  match o with CreateWriter | WriterEntry _ _ _ | CreateReader | ReaderEntry _ _ _ => true | _ => false end.
Definition is_failure (ob : bobs) : bool :=
  match ob with OWriterErr _ | OHandleMutErr _ | OReaderErr _ | OHandleErr _ => true | _ => false end.

(* ================= reference specification =================
   An acceptor of (operation, observation) sequences over the simplest possible state: which
   objects the user holds, and per key the last written value and the number of updates.
   No slot counter, no reference count, no producer flag, no cells:
     - a Writer is created iff no Writer exists; while a Writer exists creation fails with
       ExceedsMaxSupportedWriters.  While no Writer but a write handle of a dropped Writer
       exists, BOTH answers are admissible (the code keeps the slot until the last handle is
       gone; the property clause does not decide this case);
     - a write handle for (k, ty) is created iff the entry exists with that type (else
       EntryDoesNotExist) and no write handle for k exists (else HandleAlreadyExists);
     - get returns the last value written through a handle (initially the value given to
       add()) and generation 1 + number of updates; is_up_to_date compares generations;
     - refusals change nothing. *)
Record sp := {
  s_mr  : nat;
  s_ty  : list N;
  s_val : list N;
  s_gen : list N;
  s_ws  : list bool;
  s_hs  : list hrec;
  s_rs  : list bool;
  s_xs  : list xrec
}.

Definition sp_new (mr : nat) (init : list (N * N)) : sp :=
  {| s_mr := (if Nat.eqb mr 0 then 1 else mr); s_ty := map fst init; s_val := map snd init;
     s_gen := map (fun _ => 1%N) init; s_ws := []; s_hs := []; s_rs := []; s_xs := [] |}.

Definition sp_set_ws (a : sp) (ws : list bool) : sp :=
  {| s_mr := s_mr a; s_ty := s_ty a; s_val := s_val a; s_gen := s_gen a; s_ws := ws; s_hs := s_hs a;
     s_rs := s_rs a; s_xs := s_xs a |}.
Definition sp_set_hs (a : sp) (hs : list hrec) : sp :=
  {| s_mr := s_mr a; s_ty := s_ty a; s_val := s_val a; s_gen := s_gen a; s_ws := s_ws a; s_hs := hs;
     s_rs := s_rs a; s_xs := s_xs a |}.
Definition sp_set_rs (a : sp) (rs : list bool) : sp :=
  {| s_mr := s_mr a; s_ty := s_ty a; s_val := s_val a; s_gen := s_gen a; s_ws := s_ws a; s_hs := s_hs a;
     s_rs := rs; s_xs := s_xs a |}.
Definition sp_set_xs (a : sp) (xs : list xrec) : sp :=
  {| s_mr := s_mr a; s_ty := s_ty a; s_val := s_val a; s_gen := s_gen a; s_ws := s_ws a; s_hs := s_hs a;
     s_rs := s_rs a; s_xs := xs |}.
Definition sp_set_val (a : sp) (vs gs : list N) : sp :=
  {| s_mr := s_mr a; s_ty := s_ty a; s_val := vs; s_gen := gs; s_ws := s_ws a; s_hs := s_hs a;
     s_rs := s_rs a; s_xs := s_xs a |}.

Definition bobs_eqb (a b : bobs) : bool :=
  match a, b with
  | OOk, OOk => true
  | OId n, OId m => Nat.eqb n m
  | OWriterErr ExceedsMaxSupportedWriters, OWriterErr ExceedsMaxSupportedWriters => true
  | OHandleMutErr HM_EntryDoesNotExist, OHandleMutErr HM_EntryDoesNotExist => true
  | OHandleMutErr HM_HandleAlreadyExists, OHandleMutErr HM_HandleAlreadyExists => true
  | OReaderErr ExceedsMaxSupportedReaders, OReaderErr ExceedsMaxSupportedReaders => true
  | OHandleErr H_EntryDoesNotExist, OHandleErr H_EntryDoesNotExist => true
  | OValue v g, OValue v' g' => N.eqb v v' && N.eqb g g'
  | OBool x, OBool y => Bool.eqb x y
  | ORefused, ORefused => true
  | _, _ => false
  end.

(* the observation must be `want`; then the state becomes a' *)
Definition expect (want ob : bobs) (a' : sp) : option sp := if bobs_eqb want ob then Some a' else None.

Definition sp_handle_on (a : sp) (k : nat) : bool := existsb (fun r => h_live r && Nat.eqb (h_k r) k) (s_hs a).
Definition sp_has_type (a : sp) (k : nat) (ty : N) : bool :=
  match nth_error (s_ty a) k with Some t => N.eqb ty t | None => false end.

(* the update of key k completes with value v *)
Definition sp_update (a : sp) (k : nat) (v : N) : sp :=
  sp_set_val a (upd (s_val a) k v) (upd (s_gen a) k (N.add (nth k (s_gen a) 0%N) 1)).
(* operations on a write handle: the state it must be in, its new state, the value it publishes *)
Definition sp_handle_op (a : sp) (h : nat) (ok : hst -> option (hst * option N)) (ob : bobs) : option sp :=
  match nth_error (s_hs a) h with
  | Some r =>
      match ok (h_st r) with
      | Some (st', pub) =>
          let a1 := sp_set_hs a (upd (s_hs a) h {| h_w := h_w r; h_k := h_k r; h_st := st' |}) in
          expect OOk ob (match pub with Some v => sp_update a1 (h_k r) v | None => a1 end)
      | None => expect ORefused ob a
      end
  | None => expect ORefused ob a
  end.

Definition sp_step (a : sp) (o : bop) (ob : bobs) : option sp :=
  match o with
  | CreateWriter =>
      match ob with
      | OId n => if negb (existsb (fun b : bool => b) (s_ws a)) && Nat.eqb n (length (s_ws a))
                 then Some (sp_set_ws a (s_ws a ++ [true])) else None
      | OWriterErr ExceedsMaxSupportedWriters =>
          if existsb (fun b : bool => b) (s_ws a) || existsb h_live (s_hs a) then Some a else None
      | _ => None
      end
  | DropWriter i =>
      match nth_error (s_ws a) i with
      | Some true => expect OOk ob (sp_set_ws a (upd (s_ws a) i false))
      | _ => expect ORefused ob a
      end
  | WriterEntry i k ty =>
      match nth_error (s_ws a) i with
      | Some true =>
          if negb (sp_has_type a k ty) then expect (OHandleMutErr HM_EntryDoesNotExist) ob a
          else if sp_handle_on a k then expect (OHandleMutErr HM_HandleAlreadyExists) ob a
          else expect (OId (length (s_hs a))) ob (sp_set_hs a (s_hs a ++ [{| h_w := i; h_k := k; h_st := HIdle |}]))
      | _ => expect ORefused ob a
      end
  | DropHandleMut h => sp_handle_op a h (fun st => match st with HDead => None | _ => Some (HDead, None) end) ob
  | UpdateWithCopy h v => sp_handle_op a h (fun st => match st with HIdle => Some (HIdle, Some v) | _ => None end) ob
  | LoanUninit h => sp_handle_op a h (fun st => match st with HIdle => Some (HLoan None, None) | _ => None end) ob
  | WriteLoan h v => sp_handle_op a h (fun st => match st with HLoan _ => Some (HLoan (Some v), None) | _ => None end) ob
  | AssumeInit h => sp_handle_op a h (fun st => match st with HLoan (Some v) => Some (HIdle, Some v) | _ => None end) ob
  | UpdateLoan h v => sp_handle_op a h (fun st => match st with HLoan _ => Some (HIdle, Some v) | _ => None end) ob
  | DiscardLoan h => sp_handle_op a h (fun st => match st with HLoan _ => Some (HIdle, None) | _ => None end) ob
  | CreateReader =>
      if Nat.ltb (count_if (fun b : bool => b) (s_rs a)) (s_mr a)
      then expect (OId (length (s_rs a))) ob (sp_set_rs a (s_rs a ++ [true]))
      else expect (OReaderErr ExceedsMaxSupportedReaders) ob a
  | DropReader r =>
      match nth_error (s_rs a) r with
      | Some true => expect OOk ob (sp_set_rs a (upd (s_rs a) r false))
      | _ => expect ORefused ob a
      end
  | ReaderEntry r k ty =>
      match nth_error (s_rs a) r with
      | Some true =>
          if negb (sp_has_type a k ty) then expect (OHandleErr H_EntryDoesNotExist) ob a
          else expect (OId (length (s_xs a))) ob (sp_set_xs a (s_xs a ++ [{| x_k := k; x_live := true; x_gen := None |}]))
      | _ => expect ORefused ob a
      end
  | DropHandle x =>
      match nth_error (s_xs a) x with
      | Some r => if x_live r
                  then expect OOk ob (sp_set_xs a (upd (s_xs a) x {| x_k := x_k r; x_live := false; x_gen := x_gen r |}))
                  else expect ORefused ob a
      | None => expect ORefused ob a
      end
  | Get x =>
      match nth_error (s_xs a) x with
      | Some r =>
          if x_live r then
            match nth_error (s_val a) (x_k r), nth_error (s_gen a) (x_k r) with
            | Some v, Some g => expect (OValue v g) ob
                                   (sp_set_xs a (upd (s_xs a) x {| x_k := x_k r; x_live := true; x_gen := Some g |}))
            | _, _ => expect ORefused ob a
            end
          else expect ORefused ob a
      | None => expect ORefused ob a
      end
  | IsUpToDate x =>
      match nth_error (s_xs a) x with
      | Some r =>
          if x_live r then
            match x_gen r, nth_error (s_gen a) (x_k r) with
            | Some g, Some g' => expect (OBool (N.eqb g' g)) ob a
            | _, _ => expect ORefused ob a
            end
          else expect ORefused ob a
      | None => expect ORefused ob a
      end
  end.

(* what the dynamic configuration of the service (number_of_writers w, number_of_readers r) may
   show while the user holds the objects of specification state a: never more writer ports than
   max_writers, every Writer the user holds is registered, the readers are exactly those held *)
Definition sp_digest_ok (a : sp) (w r : nat) : bool :=
  Nat.leb w max_writers && Nat.leb (count_if (fun b : bool => b) (s_ws a)) w &&
  Nat.eqb r (count_if (fun b : bool => b) (s_rs a)).

(* the whole sequence of (operation, observation) pairs is admissible *)
Fixpoint sp_accepts (a : sp) (h : list bop) (obs : list bobs) : bool :=
  match h, obs with
  | [], [] => true
  | o :: h', ob :: obs' => match sp_step a o ob with Some a' => sp_accepts a' h' obs' | None => false end
  | _, _ => false
  end.

(* the abstraction of a model state: what the reference specification sees of it *)
Definition abs (s : bb) : sp :=
  {| s_mr := max_readers s; s_ty := map e_ty (entries s); s_val := map cell_load (entries s);
     s_gen := map e_wc (entries s); s_ws := map w_obj (writers s); s_hs := whs s;
     s_rs := readers s; s_xs := rhs s |}.

(* names for extraction (extract/C12.v): unambiguous next to the identifiers of other models *)
Definition bb_step := step.
Definition bb_sp_new := sp_new.
Definition bb_sp_step := sp_step.
Definition bb_sp_digest_ok := sp_digest_ok.
Definition bb_nwriters (s : bb) : nat := nwriters s.
Definition bb_nreaders (s : bb) : nat := nreaders s.
