(* Step model of the event hand-shake of iceoryx2-cal/src/event/common.rs (Handle::notify,
   Waiter::drain_events / try_wait / timed_wait / blocking_wait) over the two event states
   iceoryx2-bb/lock-free/src/mpmc/bit_set.rs (words are AtomicU8, id -> word id / 8, bit id % 8)
   and mpmc/counting_bit_set.rs (one AtomicU64 counter per id), with an ABSTRACT trigger
   (trigger/mod.rs HandlerInterface::notify, WaiterInterface::{try,timed,blocking}_wait,
   empty_buffer): a counter `trig` of pending tokens with capacity `tcap` (None = unbounded).

     notify(i):  event.activate(i)            -- max_event_id < i => Err(EventIdOutOfBounds);
                                                 data_ptr.as_ptr(): load of the relocatable pointer's distance (Relaxed)
                                                 bit_set set_bit: cur := load word (Relaxed);
                                                 loop { if cur & mask != 0 return; CAS word cur -> cur|mask (Relaxed/Relaxed); Err(v) => cur := v }
                                                 counting: fetch_add(1, Relaxed) on counter i
                 CAS state Idle -> Pending (SeqCst/SeqCst):  Err(Notified) => return Ok  (NO trigger)
                                                             Ok | Err(_)   => handle.notify():
                      Ok                => CAS state Pending -> Notified (result ignored); return Ok
                      Err(BufferIsFull) => fail_when_buffer_is_full ? return Err(BufferIsFull)
                                                                    : CAS Pending -> Notified; return Ok
     wait(mode): CAS state Notified -> Idle (SeqCst/SeqCst): Ok => drain
                 else wait_call() (try / timed / blocking wait on the trigger); store state := Idle (SeqCst); drain
                 drain: waiter.empty_buffer(); [repaired protocol: store state := Idle (SeqCst) once more;] event.drain(callback):
                      bit_set reset_all:  for every word w: data_ptr.as_ptr() (load); v := swap(0, Relaxed); callback(8w+b) for every set bit b
                      counting reset_all: for every id:     data_ptr.as_ptr() (load); c := swap(0, Relaxed); if c != 0 callback(id, c)
   One step = one shared-memory access (one atomic operation on a word / counter / the
   notification state, or one operation of the trigger).  The listener's blocking wait is
   ENABLED only when trig > 0 (step = None otherwise: "would sleep"); a try_wait / timed_wait
   on an empty trigger returns (timeout) and the call goes on to drain.
   Thread 0 is the listener, every other thread a notifier (any number).
   Ghost fields (never read by a step): see egst. *)
From V Require Import model.Base model.Conc model.Events.
Open Scope N_scope.

Inductive ekind := EBitSet | ECounting.
Inductive wmode := WTry | WTimed | WBlock.
Inductive nst := Idle | Pending | Notified.      (* NOTIFICATION_STATE_IDLE / _PENDING / _NOTIFIED = 0 / 1 / 2 *)
Definition st_code (s : nst) : N := match s with Idle => 0 | Pending => 1 | Notified => 2 end.

Inductive eop := ONotify (i : N) | OWait (m : wmode).

Inductive epc :=
| PIdle
| NAct (i : N)             (* data_ptr loaded; about to load the word (bit_set) / fetch_add the counter (counting) *)
| NActCas (i cur : N)      (* bit_set set_bit: about to CAS the word from cur *)
| NCasIP (i : N)           (* about to CAS the notification state Idle -> Pending *)
| NTrig (i : N)            (* about to post the trigger *)
| NCasPN (i : N)           (* about to CAS the notification state Pending -> Notified *)
| LWait (m : wmode)        (* about to wait on the trigger *)
| LStoreIdle               (* about to store Idle *)
| LEmpty                   (* about to empty the trigger buffer *)
| LStoreIdle2              (* repaired protocol: about to store Idle a second time, after empty_buffer and before the drain *)
| LDrainPtr (w total : N)   (* about to load data_ptr for word / counter w; total = events reported so far *)
| LDrain (w total : N).    (* about to swap word / counter w *)    (* about to swap word / counter w; total = events reported so far *)

Record elst := {
  prog : list eop; at_pc : epc;
  ffull : bool;             (* NotifierBuilder::fail_when_buffer_is_full of this notifier *)
  my_idx : N                (* ghost: notified_total of my id right after my activation *)
}.

Record egst := {
  kind : ekind; cap : N;    (* cap = event_id_max + 1 *)
  tcap : option N;          (* capacity of the trigger buffer *)
  repaired : bool;          (* true: the drain closure of Waiter::drain_events is empty_buffer; store Idle; event.drain (current code);
                               false: the protocol before the repair (empty_buffer; event.drain), kept for the refutation witness *)
  pdist : N;                (* value of the RelocatablePointer distance (relocatable_pointer.rs as_ptr loads it atomically before every word access; constant) *)
  after_wait : N -> N;      (* trigger policy: tokens left by a successful wait on n > 0 tokens (model trigger: n - 1) *)
  after_empty : N -> N;     (* trigger policy: tokens left by empty_buffer on n tokens (model trigger: 0) *)
  words : N -> N;           (* bit_set: 8-bit words; counting: one counter per id *)
  st : nst; trig : N;
  (* ghost *)
  notified_total : N -> N;  (* per id: activations that took effect (a merged one counts) *)
  delivered_total : N -> N; (* per id: occurrences reported to the listener callback *)
  covered : N -> N;         (* per id: notified_total at the last Drain step of the id's word *)
  done_idx : N -> N;        (* per id: largest activation index among notifies that RETURNED Ok *)
  lost : N -> N             (* per id: number of 2^64 wrap-arounds of the counter (counting only) *)
}.

(* ids whose notify has returned Ok and whose activation no Drain step has taken since *)
Definition undelivered (g : egst) (i : N) : Prop := covered g i < done_idx g i.
Definition undelivered_b (g : egst) (i : N) : bool := N.ltb (covered g i) (done_idx g i).

Definition B_WORD : N := 0.  Definition B_STATE : N := 1.  Definition B_TRIG : N := 2.  Definition B_PTR : N := 3.
Definition two64 : N := 18446744073709551616.

Definition fupd (f : N -> N) (i v : N) : N -> N := fun j => if N.eqb j i then v else f j.

Definition widx (k : ekind) (i : N) : N := match k with EBitSet => i / 8 | ECounting => i end.
Definition bitno (i : N) : N := i mod 8.
Definition nwords (k : ekind) (c : N) : N := match k with EBitSet => (c + 7) / 8 | ECounting => c end.
(* pending occurrences of id i: the bit (0/1) or the counter *)
Definition pend (k : ekind) (ws : N -> N) (i : N) : N :=
  match k with EBitSet => if N.testbit (ws (i / 8)) (i mod 8) then 1 else 0 | ECounting => ws i end.

(* what reset_all reports for word w holding v, in callback order *)
Fixpoint bit_reports (w v : N) (b : N) (n : nat) : list (N * N) :=
  match n with
  | O => []
  | S n' => (if N.testbit v b then [(8 * w + b, 1)] else []) ++ bit_reports w v (b + 1) n'
  end.
Definition reports (k : ekind) (w v : N) : list (N * N) :=
  match k with
  | EBitSet => bit_reports w v 0 8
  | ECounting => if N.eqb v 0 then [] else [(w, v)]
  end.
Definition rep_code (r : N * N) : N := 2 * (fst r + 1024 * snd r) + 1.
Definition rep_total (k : ekind) (w v : N) : N :=
  match k with EBitSet => N.of_nat (length (reports k w v)) | ECounting => v end.

Definition RET_OK : N := 0.  Definition RET_FULL : N := 2.  Definition RET_OOB : N := 4.

Definition set_l (l : elst) (p : list eop) (c : epc) : elst :=
  {| prog := p; at_pc := c; ffull := ffull l; my_idx := my_idx l |}.
Definition set_li (l : elst) (p : list eop) (c : epc) (x : N) : elst :=
  {| prog := p; at_pc := c; ffull := ffull l; my_idx := x |}.

Definition upd_real (g : egst) (ws : N -> N) (s : nst) (tr : N) : egst :=
  {| kind := kind g; cap := cap g; tcap := tcap g; repaired := repaired g; pdist := pdist g; after_wait := after_wait g; after_empty := after_empty g; words := ws; st := s; trig := tr;
     notified_total := notified_total g; delivered_total := delivered_total g; covered := covered g;
     done_idx := done_idx g; lost := lost g |}.

(* the activation of id i takes effect (word already updated to ws) *)
Definition activated (g : egst) (ws : N -> N) (i : N) (wrapped : bool) : egst :=
  {| kind := kind g; cap := cap g; tcap := tcap g; repaired := repaired g; pdist := pdist g; after_wait := after_wait g; after_empty := after_empty g; words := ws; st := st g; trig := trig g;
     notified_total := fupd (notified_total g) i (notified_total g i + 1);
     delivered_total := delivered_total g; covered := covered g; done_idx := done_idx g;
     lost := if wrapped then fupd (lost g) i (lost g i + 1) else lost g |}.

(* notify(i) of a thread whose activation index is x returns Ok *)
Definition returned (g : egst) (s : nst) (i x : N) : egst :=
  {| kind := kind g; cap := cap g; tcap := tcap g; repaired := repaired g; pdist := pdist g; after_wait := after_wait g; after_empty := after_empty g; words := words g; st := s; trig := trig g;
     notified_total := notified_total g; delivered_total := delivered_total g; covered := covered g;
     done_idx := fupd (done_idx g) i (N.max (done_idx g i) x); lost := lost g |}.

(* Drain step of word w *)
Definition drained (g : egst) (w : N) : egst :=
  let k := kind g in
  {| kind := k; cap := cap g; tcap := tcap g; repaired := repaired g; pdist := pdist g; after_wait := after_wait g; after_empty := after_empty g; words := fupd (words g) w 0; st := st g; trig := trig g;
     notified_total := notified_total g;
     delivered_total := (fun j => if N.eqb (widx k j) w then delivered_total g j + pend k (words g) j else delivered_total g j);
     covered := (fun j => if N.eqb (widx k j) w then notified_total g j else covered g j);
     done_idx := done_idx g; lost := lost g |}.

Definition trig_full (g : egst) : bool :=
  match tcap g with None => false | Some c => N.leb c (trig g) end.

Definition wait_site (m : wmode) : N := match m with WTry => 61 | WTimed => 62 | WBlock => 63 end.

Definition step (t : nat) (g : egst) (l : elst) : option (egst * elst * list ev) :=
  match at_pc l with
  | PIdle =>
    match prog l with
    | [] => None
    | ONotify i :: p =>
      match t with
      | O => Some (g, set_l l p PIdle, [])                      (* the listener thread does not notify *)
      | S _ =>
        if N.leb (cap g) i then Some (g, set_l l p PIdle, [ERet RET_OOB])
        else Some (g, set_l l p (NAct i), [EAcc 5 B_PTR 0 KLoad Relaxed Relaxed (pdist g) 0 true])
      end
    | OWait m :: p =>
      match t with
      | O =>
        match st g with
        | Notified => Some (upd_real g (words g) Idle (trig g), set_l l p LEmpty,
                            [EAcc 60 B_STATE 0 KCas SeqCst SeqCst 2 0 true])
        | s => Some (g, set_l l p (LWait m), [EAcc 60 B_STATE 0 KCas SeqCst SeqCst (st_code s) 0 false])
        end
      | S _ => Some (g, set_l l p PIdle, [])                    (* notifier threads do not wait *)
      end
    end
  | NAct i =>
    match kind g with
    | EBitSet =>
      let cur := words g (i / 8) in
      let e := EAcc 10 B_WORD (i / 8) KLoad Relaxed Relaxed cur 0 true in
      if N.testbit cur (bitno i)
      then Some (activated g (words g) i false, set_li l (prog l) (NCasIP i) (notified_total g i + 1), [e])
      else Some (g, set_l l (prog l) (NActCas i cur), [e])
    | ECounting =>
      let c := words g i in
      let c' := (c + 1) mod two64 in
      Some (activated g (fupd (words g) i c') i (N.eqb c' 0), set_li l (prog l) (NCasIP i) (notified_total g i + 1),
            [EAcc 20 B_WORD i KFetchAdd Relaxed Relaxed c c' true])
    end
  | NActCas i cur =>
    let w := i / 8 in
    let v := words g w in
    let new := N.setbit cur (bitno i) in
    if N.eqb v cur
    then Some (activated g (fupd (words g) w new) i false, set_li l (prog l) (NCasIP i) (notified_total g i + 1),
               [EAcc 11 B_WORD w KCas Relaxed Relaxed cur new true])
    else
      let e := EAcc 11 B_WORD w KCas Relaxed Relaxed v new false in
      if N.testbit v (bitno i)
      then Some (activated g (words g) i false, set_li l (prog l) (NCasIP i) (notified_total g i + 1), [e])
      else Some (g, set_l l (prog l) (NActCas i v), [e])
  | NCasIP i =>
    match st g with
    | Idle => Some (upd_real g (words g) Pending (trig g), set_l l (prog l) (NTrig i),
                    [EAcc 30 B_STATE 0 KCas SeqCst SeqCst 0 1 true])
    | Pending => Some (g, set_l l (prog l) (NTrig i), [EAcc 30 B_STATE 0 KCas SeqCst SeqCst 1 1 false])
    | Notified => Some (returned g (st g) i (my_idx l), set_l l (prog l) PIdle,
                        [EAcc 30 B_STATE 0 KCas SeqCst SeqCst 2 1 false; ERet RET_OK])
    end
  | NTrig i =>
    if trig_full g
    then
      let e := EAcc 40 B_TRIG 0 KFetchAdd SeqCst SeqCst (trig g) (trig g) false in
      if ffull l then Some (g, set_l l (prog l) PIdle, [e; ERet RET_FULL])
      else Some (g, set_l l (prog l) (NCasPN i), [e])
    else Some (upd_real g (words g) (st g) (trig g + 1), set_l l (prog l) (NCasPN i),
               [EAcc 40 B_TRIG 0 KFetchAdd SeqCst SeqCst (trig g) (trig g + 1) true])
  | NCasPN i =>
    match st g with
    | Pending => Some (returned g Notified i (my_idx l), set_l l (prog l) PIdle,
                       [EAcc 50 B_STATE 0 KCas SeqCst SeqCst 1 2 true; ERet RET_OK])
    | s => Some (returned g s i (my_idx l), set_l l (prog l) PIdle,
                 [EAcc 50 B_STATE 0 KCas SeqCst SeqCst (st_code s) 2 false; ERet RET_OK])
    end
  | LWait m =>
    if N.eqb (trig g) 0
    then match m with
         | WBlock => None                                                 (* would sleep *)
         | _ => Some (g, set_l l (prog l) LStoreIdle,
                      [EAcc (wait_site m) B_TRIG 0 KFetchSub SeqCst SeqCst 0 0 false])
         end
    else Some (upd_real g (words g) (st g) (after_wait g (trig g)), set_l l (prog l) LStoreIdle,
               [EAcc (wait_site m) B_TRIG 0 KFetchSub SeqCst SeqCst (trig g) (after_wait g (trig g)) true])
  | LStoreIdle =>
    Some (upd_real g (words g) Idle (trig g), set_l l (prog l) LEmpty,
          [EAcc 64 B_STATE 0 KStore SeqCst SeqCst 0 0 true])
  | LEmpty =>
    Some (upd_real g (words g) (st g) (after_empty g (trig g)), set_l l (prog l) (if repaired g then LStoreIdle2 else LDrainPtr 0 0),
          [EAcc 65 B_TRIG 0 KSwap SeqCst SeqCst (trig g) (after_empty g (trig g)) true])
  | LStoreIdle2 =>
    Some (upd_real g (words g) Idle (trig g), set_l l (prog l) (LDrainPtr 0 0),
          [EAcc 66 B_STATE 0 KStore SeqCst SeqCst 0 0 true])
  | LDrainPtr w total =>
    Some (g, set_l l (prog l) (LDrain w total), [EAcc 69 B_PTR 0 KLoad Relaxed Relaxed (pdist g) 0 true])
  | LDrain w total =>
    let v := words g w in
    let total' := total + rep_total (kind g) w v in
    let e := EAcc (match kind g with EBitSet => 70 | ECounting => 71 end) B_WORD w KSwap Relaxed Relaxed v 0 true :: map (fun r => ERet (rep_code r)) (reports (kind g) w v) in
    if N.leb (nwords (kind g) (cap g)) (w + 1)
    then Some (drained g w, set_l l (prog l) PIdle, e ++ [ERet (2 * total')])
    else Some (drained g w, set_l l (prog l) (LDrainPtr (w + 1) total'), e)
  end.

Definition zero : N -> N := fun _ => 0.
(* trigger policies: the MODEL trigger of the G1 harness takes one token per wait and empties
   completely; the real triggers take one..all per wait (semaphore and socket pair: all) and
   may leave tokens in empty_buffer (unix datagram socket) *)
Record tpolicy := { pol_wait : N -> N; pol_empty : N -> N }.
Definition pol_model : tpolicy := {| pol_wait := fun n => n - 1; pol_empty := fun _ => 0 |}.
Definition pol_take_all : tpolicy := {| pol_wait := fun _ => 0; pol_empty := fun _ => 0 |}.
Definition pol_one_each : tpolicy := {| pol_wait := fun n => n - 1; pol_empty := fun n => n - 1 |}.

Definition g_init (rp : bool) (k : ekind) (c : N) (tc : option N) (po : tpolicy) (pd : N) : egst :=
  {| kind := k; cap := c; tcap := tc; repaired := rp; pdist := pd; after_wait := pol_wait po; after_empty := pol_empty po; words := zero; st := Idle; trig := 0;
     notified_total := zero; delivered_total := zero; covered := zero; done_idx := zero; lost := zero |}.
Definition l_init (p : list eop) (ff : bool) : elst := {| prog := p; at_pc := PIdle; ffull := ff; my_idx := 0 |}.
(* thread 0 = listener with the waits lp; thread t+1 = notifier with the ids (np t) *)
Definition init (rp : bool) (k : ekind) (c : N) (tc : option N) (po : tpolicy) (pd : N) (lp : list wmode) (np : nat -> list N) (ff : nat -> bool) : cfg egst elst :=
  (g_init rp k c tc po pd, fun t => match t with O => l_init (map OWait lp) false | S u => l_init (map ONotify (np u)) (ff u) end).

(* ---- the statements the property talks about, as predicates on configurations ---- *)
Definition listener_pc (c : cfg egst elst) : epc := at_pc (snd c O).
(* the listener sleeps (blocking wait on an empty trigger) *)
Definition asleep (c : cfg egst elst) : Prop := listener_pc c = LWait WBlock /\ trig (fst c) = 0.
(* the bad window: the flag says "a wake-up is on its way", but the trigger is empty and the listener sleeps *)
Definition bad_window (c : cfg egst elst) : Prop := asleep c /\ st (fst c) = Notified.

(* boolean versions over ids < n, for running the model *)
Fixpoint any_below (n : nat) (f : N -> bool) : bool :=
  match n with O => false | S k => f (N.of_nat k) || any_below k f end.
Definition asleep_b (c : cfg egst elst) : bool :=
  match listener_pc c with LWait WBlock => N.eqb (trig (fst c)) 0 | _ => false end.
Definition lost_wakeup_b (c : cfg egst elst) : bool :=
  asleep_b c && any_below (N.to_nat (cap (fst c))) (undelivered_b (fst c)).
Definition bad_window_b (c : cfg egst elst) : bool :=
  asleep_b c && match st (fst c) with Notified => true | _ => false end.
