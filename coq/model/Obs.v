(* Observations shared by the C16 container models other than the queue (which keeps its
   own qobs): what one API call hands back to the caller, as printed by the harness. *)
From V Require Import model.Base.

(* the documented error enums of the containers:
   VectorModificationError / StringModificationError / FlatMapError *)
Inductive err :=
| EExceedsCapacity   (* InsertWouldExceedCapacity (vector, string) *)
| EOutOfBounds       (* VectorModificationError::OutOfBounds *)
| EInvalidCharacter  (* StringModificationError::InvalidCharacter *)
| EKeyExists         (* FlatMapError::KeyAlreadyExists *)
| EIsFull.           (* FlatMapError::IsFull *)

Inductive obs :=
| OUnit                 (* Ok(()) or a function returning () *)
| OErr (e : err)
| OB (b : bool)
| OO (o : option N)
| ON (n : N)
| OL (l : list N)
| OP.                   (* the call panicked *)

(* insertion sort on N: canonical form of an order-insensitive observation (drop logs and
   key listings of the maps, whose order the reference container does not fix) *)
Fixpoint ins_sorted (x : N) (l : list N) : list N :=
  match l with
  | [] => [x]
  | y :: t => if N.leb x y then x :: l else y :: ins_sorted x t
  end.
Fixpoint sortN (l : list N) : list N :=
  match l with [] => [] | x :: t => ins_sorted x (sortN t) end.
