(* C14 -- the table of types that iceoryx2 places in shared memory, and `pi_free`.

   Hand-written part: the shape of the generated table (gen/ShmTypes.v, written by
   harness/xlate-shm from /repo's CURRENT source on every run of ./check C14) and the
   decision procedure `pi_free` ("position-independent by construction": no absolute address
   can be stored in a value of this type), evaluated by vm_compute over that finite table in
   proofs/RelPtrTable.v.  No proofs here.

   What the table transcribes:
     row      = one nominal type that is placed in shared memory:
                  ODerive          `#[derive(ZeroCopySend)]` on a struct / enum / union,
                  OManualImpl      `unsafe impl ZeroCopySend for X` (nothing checks the fields),
                  ORelocContainer  `impl RelocatableContainer for X`,
                  OAux             not itself in one of the classes above, but named by a field
                                   of a row (transitively) and defined in the scanned crates:
                                   its fields decide whether the naming row is address free.
                r_fields = (field name, type expression tree); enum fields are named
                `Variant.field` / `Variant.0`; generic parameters stay symbolic (TParam).
                An impl for a type alias (`RelocatableQueue<T> = MetaQueue<T, GenericRelocatablePointer>`)
                is a row named after the alias with the alias arguments substituted into the
                fields of the aliased struct.
     pointer_families = every `impl PointerFamily for F { type Pointer<T> = P<T>; }`. *)
From Coq Require Import String List Bool Arith.
Import ListNotations.
Open Scope string_scope.

Inductive ty :=
| TPrim (name : string)                                  (* u8 .. u128 i8 .. i128 usize isize f32 f64 bool char () ! str *)
| TParam (name : string)                                 (* generic type parameter of the row *)
| TPath (short : string) (path : string) (args : list ty) (* nominal type: last path segment, use-expanded path, generic type arguments *)
| TAssoc (base : ty) (assoc : string) (args : list ty)   (* Base::Assoc<args>  /  <Base as Trait>::Assoc<args> *)
| TArray (elem : ty) (len : string)
| TSlice (elem : ty)
| TTuple (elems : list ty)
| TPtr (is_mut : bool) (pointee : ty)                    (* *const T / *mut T *)
| TRef (is_mut : bool) (pointee : ty)                    (* &T / &mut T *)
| TFn (text : string)                                    (* fn(..) -> .., dyn Fn.., impl Fn.. *)
| TOther (text : string).                                (* anything else: never address free *)

Inductive origin := ODerive | OManualImpl | ORelocContainer | OAux.

Record row := mk_row {
  r_qual : string;                      (* crate::module::Name *)
  r_short : string;                     (* Name *)
  r_origins : list origin;
  r_where : string;                     (* file:line of the definition *)
  r_params : list (string * bool);      (* type parameter, bounded by ZeroCopySend in the impl / definition *)
  r_fields : list (string * ty)
}.

(* ---------------------------------------------------------------------------------------
   pi_free: why a type expression may hold an absolute address.  `offenders` lists the reasons
   (empty list = address free); `pi_free` is its emptiness test, so the diagnostic printed by
   ./check C14 and the decision in the theorem cannot drift apart. *)
Inductive why :=
| WRawPointer (text : string)      (* *const T / *mut T *)
| WReference (text : string)       (* &T / &mut T *)
| WFn (text : string)              (* fn pointer / trait object *)
| WOther (text : string)           (* type expression the translator has no constructor for *)
| WForbidden (path : string)       (* heap / address carrying std or iceoryx2 type *)
| WUnknown (path : string)         (* nominal type that is neither a table row, nor a listed leaf, nor defined in the scanned crates *)
| WUnboundedParam (name : string)  (* generic parameter stored by value that the impl does not bound by ZeroCopySend *)
| WPointerFamily (text : string)   (* Ptr::Pointer<T> with a pointer family that is not known to be the relocatable one *)
| WFuel.                           (* nesting deeper than the fuel (treated as a failure) *)

(* types that carry an address of the creating process by construction *)
Definition forbidden : list string :=
  ["Box"; "Vec"; "String"; "NonNull"; "OwningPointer"; "Rc"; "Arc"; "Weak"; "VecDeque"; "BTreeMap"; "HashMap";
   "CString"; "OsString"; "PathBuf"; "Cow"; "AtomicPtr"].

(* nominal leaves that are not defined by a struct/enum item of the scanned crates and store
   their content in place (no indirection); their type arguments are checked.
     Atomic* ............ iceoryx2-bb/concurrency/src/atomic.rs `Impl!(AtomicU64, u64)`: a macro-generated
                          wrapper around one integer (`unsafe impl ZeroCopySend` inside the macro)
     MaybeUninit, UnsafeCell, Cell, ManuallyDrop, Option, Wrapping ... core wrappers, content in place
     Duration ........... core::time::Duration { secs: u64, nanos: u32 }
     Layout ............. core::alloc::Layout { size: usize, align: usize-like }: two numbers, no address
   PhantomData is handled separately (zero sized: its argument is not stored). *)
Definition leaf_ok : list string :=
  ["AtomicBool"; "AtomicU8"; "AtomicU16"; "AtomicU32"; "AtomicU64"; "AtomicUsize";
   "AtomicI8"; "AtomicI16"; "AtomicI32"; "AtomicI64"; "AtomicIsize";
   "MaybeUninit"; "UnsafeCell"; "Cell"; "ManuallyDrop"; "Option"; "Wrapping"; "Duration"; "Layout"].

Definition mem_str (s : string) (l : list string) : bool := existsb (String.eqb s) l.

Record tables := mk_tables {
  t_rows : list row;                       (* the shared-memory types *)
  t_aux : list row;                        (* definitions of other types they name *)
  t_families : list (string * string)      (* PointerFamily implementer -> its Pointer<T> *)
}.

(* the definitions a nominal type may denote: the one whose qualified name is the (use-expanded)
   path when there is one, otherwise every definition with that short name *)
Definition rows_named (rs : list row) (short path : string) : list row :=
  match filter (fun r => String.eqb (r_qual r) path) rs with
  | [] => filter (fun r => String.eqb (r_short r) short) rs
  | exact => exact
  end.

Definition family_target (tb : tables) (fam : string) : option string :=
  match find (fun p => String.eqb (fst p) fam) (t_families tb) with
  | Some p => Some (snd p)
  | None => None
  end.

Definition flat_map_l {A B} (f : A -> list B) (l : list A) : list B := fold_right (fun a acc => (f a ++ acc)%list) [] l.

(* substitution of type arguments for the parameters of a generic definition *)
Fixpoint subst (s : list (string * ty)) (t : ty) : ty :=
  match t with
  | TParam n => match find (fun p => String.eqb (fst p) n) s with Some p => snd p | None => t end
  | TPath a b args => TPath a b (map (subst s) args)
  | TAssoc base a args => TAssoc (subst s base) a (map (subst s) args)
  | TArray e l => TArray (subst s e) l
  | TSlice e => TSlice (subst s e)
  | TTuple es => TTuple (map (subst s) es)
  | TPtr m p => TPtr m (subst s p)
  | TRef m p => TRef m (subst s p)
  | TPrim _ | TFn _ | TOther _ => t
  end.

(* params_ok: which symbolic parameters may be stored by value (bounded by ZeroCopySend) *)
Fixpoint offenders (fuel : nat) (tb : tables) (params_ok : string -> bool) (t : ty) {struct fuel} : list why :=
  match fuel with
  | O => [WFuel]
  | S f =>
    let go := offenders f tb params_ok in
    match t with
    | TPrim _ => []
    | TParam n => if params_ok n then [] else [WUnboundedParam n]
    | TPtr _ _ => [WRawPointer "raw pointer"]
    | TRef _ _ => [WReference "reference"]
    | TFn s => [WFn s]
    | TOther s => [WOther s]
    | TArray e _ => go e
    | TSlice e => go e
    | TTuple es => flat_map_l go es
    | TPath short path args =>
      if mem_str short forbidden then [WForbidden path]
      else if String.eqb short "PhantomData" then []
      else if mem_str short leaf_ok then flat_map_l go args
      else match rows_named (t_rows tb) short path with
           | _ :: _ => flat_map_l go args          (* a table row: checked as its own row *)
           | [] =>
             match rows_named (t_aux tb) short path with
             | [] => [WUnknown path]
             | cands =>
               (* every candidate definition must be address free (sound when the translator could
                  not tell homonyms apart); the type arguments of this use are substituted for the
                  definition's parameters, so `MetaVec<usize, GenericRelocatablePointer>` is checked
                  with Ptr := GenericRelocatablePointer *)
               flat_map_l (fun r =>
                 let s := combine (map fst (r_params r)) args in
                 flat_map_l (fun ft => go (subst s (snd ft))) (r_fields r)) cands
             end
           end
    | TAssoc base assoc args =>
      match base with
      | TPath fam _ [] =>
        match family_target tb fam with
        | Some target => go (TPath target target args)
        | None => [WPointerFamily fam]
        end
      | TParam n => [WPointerFamily n]
      | _ => [WPointerFamily assoc]
      end
    end
  end.

Definition FUEL : nat := 12.

Definition pi_free (tb : tables) (params_ok : string -> bool) (t : ty) : bool :=
  match offenders FUEL tb params_ok t with [] => true | _ => false end.

(* ---------------------------------------------------------------------------------------
   The allow-list: fields that DO hold an address (or an unchecked parameter) and are accepted
   for a written reason.  Keyed by (qualified row name, field name). *)
Record exception := mk_exc { e_row : string; e_field : string; e_reason : string }.

(* May the generic parameter n of row r be stored by value?
     derived rows: yes -- the derive macro (iceoryx2-bb/derive-macros/src/lib.rs) generates
       `ZeroCopySend::__is_zero_copy_send(&self.field)` for every field, so rustc rejects the
       type unless every field type, a bare parameter included, implements ZeroCopySend under
       the declared bounds (often through a supertrait: `E: EventState`, `A: ShmAllocator`);
     manual `unsafe impl` / RelocatableContainer-only rows: only when the impl spells the bound. *)
Definition is_derived (r : row) : bool :=
  existsb (fun o => match o with ODerive => true | _ => false end) (r_origins r).

Definition row_params_ok (r : row) (n : string) : bool :=
  is_derived r ||
  match find (fun p => String.eqb (fst p) n) (r_params r) with
  | Some p => snd p
  | None => false
  end.

Definition excepted (ex : list exception) (r : row) (field : string) : bool :=
  existsb (fun e => String.eqb (e_row e) (r_qual r) && String.eqb (e_field e) field) ex.

Definition field_ok (tb : tables) (ex : list exception) (r : row) (ft : string * ty) : bool :=
  excepted ex r (fst ft) || pi_free tb (row_params_ok r) (snd ft).

Definition row_ok (tb : tables) (ex : list exception) (r : row) : bool :=
  forallb (field_ok tb ex r) (r_fields r).

(* diagnostics for ./check C14: the failing (row, field, reasons) triples *)
Definition failing (tb : tables) (ex : list exception) : list (string * string * list why) :=
  flat_map_l (fun r =>
    flat_map_l (fun ft =>
      if excepted ex r (fst ft) then []
      else match offenders FUEL tb (row_params_ok r) (snd ft) with
           | [] => []
           | ws => [(r_qual r, fst ft, ws)]
           end) (r_fields r)) (t_rows tb).

(* an exception must name an existing field that really fails without it (no stale entries) *)
Definition exception_live (tb : tables) (e : exception) : bool :=
  existsb (fun r => String.eqb (r_qual r) (e_row e) &&
    existsb (fun ft => String.eqb (fst ft) (e_field e) && negb (pi_free tb (row_params_ok r) (snd ft))) (r_fields r))
    (t_rows tb).
