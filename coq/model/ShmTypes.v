(* C14 -- the table of types that iceoryx2 places in shared memory, and `pi_free`.

   Hand-written part: the shape of the generated table (gen/ShmTypes.v, written by
   harness/xlate-shm from /repo's CURRENT source on every run of ./check C14) and the
   decision procedure `pi_free` ("position-independent by construction": no absolute address
   can be stored in a value of this type), evaluated by vm_compute over that finite table in
   proofs/RelPtrTable.v.  No proofs here.

   What the table transcribes:
     row      = one nominal type that is placed in shared memory:
                  ODerive          `#[derive(ZeroCopySend)]` on a struct / enum / union,
                  OManualImpl      `unsafe impl ZeroCopySend for X` (nothing checks the fields),
                  ORelocContainer  `impl RelocatableContainer for X`,
                  OAux             not itself in one of the classes above, but named by a field
                                   of a row (transitively) and defined in the scanned crates:
                                   its fields decide whether the naming row is address free.
                r_fields = (field name, type expression tree); enum fields are named
                `Variant.field` / `Variant.0`; generic parameters stay symbolic (TParam).
                An impl for a type alias (`RelocatableQueue<T> = MetaQueue<T, GenericRelocatablePointer>`)
                is a row named after the alias with the alias arguments substituted into the
                fields of the aliased struct.
     pointer_families = every `impl PointerFamily for F { type Pointer<T> = P<T>; }`. *)
From Coq Require Import String List Bool Arith.
Import ListNotations.
Open Scope string_scope.

Inductive ty :=
| TPrim (name : string)                                  (* u8 .. u128 i8 .. i128 usize isize f32 f64 bool char () ! str *)
| TParam (name : string)                                 (* generic type parameter of the row *)
| TPath (short : string) (path : string) (args : list ty) (* nominal type: last path segment, use-expanded path, generic type arguments *)
| TAssoc (base : ty) (assoc : string) (args : list ty)   (* Base::Assoc<args>  /  <Base as Trait>::Assoc<args> *)
| TArray (elem : ty) (len : string)
| TSlice (elem : ty)
| TTuple (elems : list ty)
| TPtr (is_mut : bool) (pointee : ty)                    (* *const T / *mut T *)
| TRef (is_mut : bool) (pointee : ty)                    (* &T / &mut T *)
| TFn (text : string)                                    (* fn(..) -> .., dyn Fn.., impl Fn.. *)
| TOther (text : string).                                (* anything else: never address free *)

Inductive origin := ODerive | OManualImpl | ORelocContainer | OAux.

Record row := mk_row {
  r_qual : string;                      (* crate::module::Name *)
  r_short : string;                     (* Name *)
  r_origins : list origin;
  r_where : string;                     (* file:line of the definition *)
  r_params : list (string * bool);      (* type parameter, bounded by ZeroCopySend in the impl / definition *)
  r_fields : list (string * ty)
}.
