(* Shared transition-system framework for the concurrent models (DESIGN.md 2.1).
   One `step` = one shared-memory access of one thread plus its thread-local computation up
   to the next access.  A schedule is a list of thread ids; a scheduled thread that cannot
   move (finished or blocked) is skipped, exactly as the baton scheduler of the G1 harness
   skips it. *)
From V Require Import model.Base.

Section Conc.
  Variables (G L E : Type).
  Variable step : nat -> G -> L -> option (G * L * list E).

  Definition cfg := (G * (nat -> L))%type.

  Definition upd_l (ls : nat -> L) (t : nat) (l : L) : nat -> L :=
    fun t' => if Nat.eqb t' t then l else ls t'.

  Definition step1 (t : nat) (c : cfg) : option (cfg * list E) :=
    match step t (fst c) (snd c t) with
    | None => None
    | Some (g', l', e) => Some ((g', upd_l (snd c) t l'), e)
    end.

  Fixpoint run (s : list nat) (c : cfg) : cfg * list (nat * E) :=
    match s with
    | [] => (c, [])
    | t :: s' =>
      match step1 t c with
      | None => run s' c
      | Some (c', es) =>
        let '(c'', tr) := run s' c' in (c'', map (fun e => (t, e)) es ++ tr)
      end
    end.

  Definition reachable (init c : cfg) : Prop := exists s, fst (run s init) = c.

  Lemma upd_l_same ls t l : upd_l ls t l t = l.
  Proof. unfold upd_l. now rewrite Nat.eqb_refl. Qed.

  Lemma upd_l_other ls t l t' : t' <> t -> upd_l ls t l t' = ls t'.
  Proof. unfold upd_l. intros H. destruct (Nat.eqb_spec t' t); congruence. Qed.

  Theorem inv_reachable (Inv : cfg -> Prop) (init : cfg) :
    Inv init ->
    (forall t c c' e, Inv c -> step1 t c = Some (c', e) -> Inv c') ->
    forall c, reachable init c -> Inv c.
  Proof.
    intros H0 Hstep c [s Hs]. subst c. revert init H0.
    induction s as [|t s IH]; intros init H0; cbn [run fst]; auto.
    destruct (step1 t init) as [[c' es]|] eqn:Est.
    - specialize (IH c' (Hstep _ _ _ _ H0 Est)).
      destruct (run s c') as [c'' tr]. exact IH.
    - apply IH; auto.
  Qed.
End Conc.

Arguments upd_l {L} ls t l _.
Arguments step1 {G L E} step t c.
Arguments run {G L E} step s c.
Arguments reachable {G L E} step init c.
