(* C17 -- ownership model: who keeps whom alive, and what each finaliser removes.

   Objects are the Rust values of one application: the user-visible handles (Node, PortFactory,
   Publisher, Sample, ...) and the shared cores behind them (SharedNodeState, ServiceState,
   PublisherSharedState, ...).  `o_keeps` lists, in field declaration order, the objects a value
   holds either by value or through a counted handle (Arc / Rc / Service::ArcThreadSafetyPolicy);
   both are "one reference that is released when the holder is destroyed" (an owned field is a
   counted reference whose count is 1).  The TYPE-level table of these edges is generated from
   /repo's sources by harness/xlate-own into gen/OwnGraph.v; an instance is well typed when each
   of its edges is an edge of that table (plus the two OS-level sharing edges listed below).

   Semantics (Rust drop glue): releasing a reference decrements the target's count; when the
   count reaches 0 the target's finaliser (`impl Drop`, modelled by the resources it removes)
   runs, then the target releases what it keeps, recursively, in field declaration order.
   Nothing here is proved; proofs are in proofs/OwnProofs.v. *)
From V Require Import model.Base gen.OwnGraph.
From Coq Require Import String.

(* ---------- resources ---------- *)
(* Named resources an object creates when it is constructed and removes in its finaliser.
   File names seen in an isolated domain (ipc::Service), per kind:
     RNodeMonitor   nodes/<prefix><node id>.node_monitor{,_context,_owner_lock}  (3 files)
     RNodeDetails   nodes/<node id>/<prefix>node.details
     RNodeDir       nodes/<node id>/
     RServiceTag    nodes/<node id>/<prefix><service hash>.service_tag
     RPortTag       nodes/<node id>/<prefix><port id>.port_tag
     RServiceStatic services/<prefix><service hash>.service
     RServiceDynamic /dev/shm/<prefix>.._<service id>.dynamic
     RServiceAux    type-definition storages / blackboard management + payload segments
     RDataSegment   /dev/shm/<prefix>.._<port id>.data
     RConnection    /dev/shm/<prefix>.._<sender id>_<receiver id>.connection
     REventChannel  <root>/<prefix><listener id>.event (+ /dev/shm ... .event_mgmt)
     RRegistryEntry the port's / node's slot in the service's dynamic configuration (in memory)
   persistent per domain (never removed by an orderly shutdown):
     RGlobalMgmt    /dev/shm/<prefix>.._node.<version>.global_mgmt
     RDomainDir     <root>/nodes/ and <root>/services/ *)
Inductive rkind :=
  | RNodeMonitor | RNodeDetails | RNodeDir | RServiceTag | RPortTag | RServiceStatic
  | RServiceDynamic | RServiceAux | RDataSegment | RConnection | REventChannel | RRegistryEntry
  | RGlobalMgmt | RDomainDir.

Definition rkind_eqb (a b : rkind) : bool :=
  match a, b with
  | RNodeMonitor, RNodeMonitor | RNodeDetails, RNodeDetails | RNodeDir, RNodeDir
  | RServiceTag, RServiceTag | RPortTag, RPortTag | RServiceStatic, RServiceStatic
  | RServiceDynamic, RServiceDynamic | RServiceAux, RServiceAux | RDataSegment, RDataSegment
  | RConnection, RConnection | REventChannel, REventChannel | RRegistryEntry, RRegistryEntry
  | RGlobalMgmt, RGlobalMgmt | RDomainDir, RDomainDir => true
  | _, _ => false
  end.

Definition persistent (k : rkind) : bool :=
  match k with RGlobalMgmt | RDomainDir => true | _ => false end.

(* a resource: its kind and a name (the id of the object that stands for its identity) *)
Definition rsrc := (rkind * nat)%type.
Definition rsrc_eqb (a b : rsrc) : bool := rkind_eqb (fst a) (fst b) && Nat.eqb (snd a) (snd b).
Definition transient (r : rsrc) : bool := negb (persistent (fst r)).

Fixpoint rlist_eqb (a b : list rsrc) : bool :=
  match a, b with
  | [], [] => true
  | x :: a', y :: b' => rsrc_eqb x y && rlist_eqb a' b'
  | _, _ => false
  end.

(* ---------- objects and instances ---------- *)
Record obj := mkobj {
  o_ty : nat;                (* index into OwnGraph.own_types, or a pseudo type below *)
  o_keeps : list nat;        (* objects held (by value or counted), field declaration order *)
  o_creates : list rsrc;     (* created (or opened, for the persistent ones) at construction *)
  o_removes : list rsrc      (* removed by the finaliser *)
}.
Definition inst := list obj.
Definition no_obj : obj := mkobj 0 [] [] [].
Definition nobjs (g : inst) : nat := List.length g.
Definition getobj (g : inst) (o : nat) : obj := nth o g no_obj.
Definition keeps (g : inst) (o : nat) : list nat := o_keeps (getobj g o).

(* ---------- the type-level graph ---------- *)
(* Pseudo types for OS-level objects that several cores share through a reference count that
   lives in shared memory, not in a Rust handle:
     os::Service    static + dynamic configuration (+ auxiliary storages) of one service: every
                    ServiceState registers its node in the dynamic configuration and the one
                    whose deregister_node_id returns NoMoreOwners acquires ownership and removes
                    (service/mod.rs ServiceState::drop);
     os::Connection one zero-copy connection: created by whichever port connects first, removed
                    by the last of its two ends to detach. *)
Definition ty_os_service : nat := 1000.
Definition ty_os_connection : nat := 1001.

Definition str_prefix (p s : string) : bool := String.prefix p s.
Definition types_named (p : string) : list nat :=
  map (fun t => fst (fst (fst t))) (filter (fun t => str_prefix p (snd (fst (fst t)))) own_types).

Definition extra_edges : list (nat * nat) :=
  (map (fun t => (t, ty_os_service)) (types_named "ServiceState<"%string)
  ++ map (fun t => (t, ty_os_connection)) (types_named "Sender<"%string)
  ++ map (fun t => (t, ty_os_connection)) (types_named "Receiver<"%string))%list.

Definition is_keep (k : ekind) : bool :=
  match k with Counted | Owned => true | Borrow | StaticRef => false end.

(* the edges along which an object keeps another alive: generated Counted/Owned rows + the two above *)
Definition keep_edges : list (nat * nat) :=
  (map (fun e => (fst (fst (fst e)), snd (fst (fst e)))) (filter (fun e => is_keep (snd (fst e))) own_edges)
  ++ extra_edges)%list.

Definition succs (edges : list (nat * nat)) (t : nat) : list nat :=
  map snd (filter (fun e => Nat.eqb (fst e) t) edges).

(* longest path below a type; the fuel is only reached on a cycle *)
Fixpoint ty_rank_f (edges : list (nat * nat)) (fuel : nat) (t : nat) : nat :=
  match fuel with
  | O => 0
  | S f => fold_right (fun s acc => Nat.max (S (ty_rank_f edges f s)) acc) 0 (succs edges t)
  end.

Definition graph_fuel (edges : list (nat * nat)) : nat := S (List.length edges).
Definition ty_rank (edges : list (nat * nat)) (t : nat) : nat := ty_rank_f edges (graph_fuel edges) t.

(* acyclicity as a computation over the finite table: every edge strictly decreases the rank *)
Definition acyclicb (edges : list (nat * nat)) : bool :=
  forallb (fun e => Nat.ltb (ty_rank edges (snd e)) (ty_rank edges (fst e))) edges.

Definition edge_inb (edges : list (nat * nat)) (a b : nat) : bool :=
  existsb (fun e => Nat.eqb (fst e) a && Nat.eqb (snd e) b) edges.

(* ---------- reference counting ---------- *)
Record st := mkst {
  cnt : nat -> nat;          (* strong count of each object *)
  alive : nat -> bool;       (* not yet finalised *)
  flog : list nat            (* finalised objects, most recent first *)
}.

Definition updf {A} (f : nat -> A) (o : nat) (v : A) : nat -> A := fun x => if Nat.eqb x o then v else f x.

Inductive outcome := Done (s : st) | Underflow | OutOfFuel.

(* release ONE reference to o *)
Fixpoint dec (fuel : nat) (g : inst) (o : nat) (s : st) : outcome :=
  match fuel with
  | O => OutOfFuel
  | S f =>
    match cnt s o with
    | O => Underflow
    | S c =>
      if Nat.eqb c 0 then
        (* last reference: finaliser first, then the fields in declaration order *)
        let s2 := mkst (updf (cnt s) o 0) (updf (alive s) o false) (o :: flog s) in
        fold_left (fun acc k => match acc with Done s' => dec f g k s' | e => e end) (keeps g o) (Done s2)
      else Done (mkst (updf (cnt s) o c) (alive s) (flog s))
    end
  end.

(* the application drops its handles in the given order *)
Fixpoint run (fuel : nat) (g : inst) (order : list nat) (s : st) : outcome :=
  match order with
  | [] => Done s
  | h :: t => match dec fuel g h s with Done s' => run fuel g t s' | e => e end
  end.

(* number of references to x held by the live objects *)
Definition incoming (g : inst) (al : nat -> bool) (x : nat) : nat :=
  list_sum (map (fun p => if al p then count_occ Nat.eq_dec (keeps g p) x else 0) (seq 0 (nobjs g))).

(* state right after construction: every object alive; count = handles + references from objects *)
Definition init (g : inst) (H : list nat) : st :=
  mkst (fun x => count_occ Nat.eq_dec H x + incoming g (fun _ => true) x) (fun _ => true) [].

Definition rank_of (edges : list (nat * nat)) (g : inst) (o : nat) : nat := ty_rank edges (o_ty (getobj g o)).
Definition inst_fuel (edges : list (nat * nat)) (g : inst) : nat :=
  S (list_max (map (rank_of edges g) (seq 0 (nobjs g)))).
Definition run_all (edges : list (nat * nat)) (g : inst) (order : list nat) (s : st) : outcome :=
  run (inst_fuel edges g) g order s.

(* well-formed instance over a type graph, with handle multiset H *)
Definition wf_instb (edges : list (nat * nat)) (g : inst) (H : list nat) : bool :=
  forallb (fun h => Nat.ltb h (nobjs g)) H
  && forallb (fun p => forallb (fun k => Nat.ltb k (nobjs g) && edge_inb edges (o_ty (getobj g p)) (o_ty (getobj g k)))
                               (keeps g p)) (seq 0 (nobjs g))
  && forallb (fun x => Nat.ltb 0 (cnt (init g H) x)) (seq 0 (nobjs g))
  && forallb (fun p => rlist_eqb (o_removes (getobj g p)) (filter transient (o_creates (getobj g p)))) (seq 0 (nobjs g)).

Definition created (g : inst) : list rsrc := flat_map (fun o => o_creates (getobj g o)) (seq 0 (nobjs g)).
Definition removed (g : inst) (s : st) : list rsrc := flat_map (fun o => o_removes (getobj g o)) (rev (flog s)).
(* resources that exist in state s: created by every object, removed by the finalised ones *)
Definition live_objs (g : inst) (s : st) : list nat := filter (alive s) (seq 0 (nobjs g)).

(* keepers are finalised before what they keep: l is in chronological order *)
Definition fin_order_ok (g : inst) (l : list nat) : Prop :=
  forall l1 x l2, l = l1 ++ x :: l2 -> forall p, p < nobjs g -> In x (keeps g p) -> In p l1.

(* ---------- building instances (constructors of the API objects) ---------- *)
(* Each constructor appends the objects one API call creates and returns the ids the later
   calls need.  Types are looked up BY NAME in the generated table so that a renumbering of
   the table does not silently retarget an edge; an unknown name gives type 999 and the
   instance is then not well typed. *)
Local Open Scope string_scope.
Definition tid (name : string) : nat :=
  match filter (fun t => String.eqb (snd (fst (fst t))) name) own_types with
  | t :: _ => fst (fst (fst t))
  | [] => 999
  end.

Definition add (g : inst) (o : obj) : inst * nat := ((g ++ [o])%list, List.length g).
Definition plain (t : string) (ks : list nat) : obj := mkobj (tid t) ks [] [].
Definition withres (t : string) (ks : list nat) (rs : list rsrc) : obj := mkobj (tid t) ks rs (filter transient rs).

Inductive pattern := PubSub | Event | ReqRes | Blackboard.
Definition res_name (p : pattern) : string :=
  match p with PubSub => "PublishSubscribeResources" | Event => "NoResource"
             | ReqRes => "RequestResponseResources" | Blackboard => "BlackboardResources" end.
Definition factory_name (p : pattern) : string :=
  match p with PubSub => "PortFactoryPubSub" | Event => "PortFactoryEvent"
             | ReqRes => "PortFactoryReqRes" | Blackboard => "PortFactoryBlackboard" end.
Definition gen (base : string) (p : pattern) : string := base ++ "<" ++ res_name p ++ ">".

(* NodeBuilder::create (node/mod.rs): monitor token, details storage, node directory; opens or
   creates the domain-wide management segment and directories.  Returns (Node, SharedNodeState). *)
Definition mk_node (g : inst) : inst * (nat * nat) :=
  let i := List.length g in
  let '(g, sns) := add g (withres "SharedNodeState" []
      [(RGlobalMgmt, 0); (RDomainDir, 0); (RNodeMonitor, i); (RNodeDetails, i); (RNodeDir, i)]) in
  let '(g, sn) := add g (plain "SharedNode" [sns]) in
  let '(g, node) := add g (plain "Node" [sn]) in
  (g, (node, sns)).

(* the OS-level service; created by the first ServiceState, shared by the later ones *)
Definition mk_os_service (g : inst) : inst * nat :=
  let i := List.length g in
  add g (mkobj ty_os_service [] [(RDomainDir, 1); (RServiceStatic, i); (RServiceDynamic, i); (RServiceAux, i)]
                                [(RServiceStatic, i); (RServiceDynamic, i); (RServiceAux, i)]).

(* service builder create/open (service/builder): registers the node in the dynamic config and
   writes a service tag.  ServiceState fields: dynamic_storage, additional_resource,
   static_config, shared_node, static_storage.  Returns (PortFactory, ServiceState). *)
Definition mk_service (p : pattern) (g : inst) (sns os : nat) : inst * (nat * nat) :=
  let '(g, r) := add g (plain (res_name p) []) in
  let '(g, sn) := add g (plain "SharedNode" [sns]) in
  let i := List.length g in
  let '(g, sst) := add g (withres (gen "ServiceState" p) [os; r; sn] [(RServiceTag, i); (RRegistryEntry, i)]) in
  let '(g, sss) := add g (plain (gen "SharedServiceState" p) [sst]) in
  let '(g, pf) := add g (plain (factory_name p) [sss]) in
  (g, (pf, sst)).

(* Sender (port/details/sender.rs): data segment, then (fields) shared_node, service_state *)
Definition mk_sender (p : pattern) (g : inst) (sns sst : nat) (conns : list nat) : inst * nat :=
  let i := List.length g in
  let '(g, ds) := add g (withres "DataSegment" [] [(RDataSegment, i)]) in
  let '(g, sn) := add g (plain "SharedNode" [sns]) in
  let '(g, sss) := add g (plain (gen "SharedServiceState" p) [sst]) in
  add g (plain (gen "Sender" p) ([ds] ++ conns ++ [sn; sss])%list).

(* Receiver (port/details/receiver.rs): service_state, then the connections *)
Definition mk_receiver (p : pattern) (g : inst) (sst : nat) (conns : list nat) : inst * nat :=
  let '(g, sss) := add g (plain (gen "SharedServiceState" p) [sst]) in
  add g (plain (gen "Receiver" p) ([sss] ++ conns)%list).

Definition mk_os_connection (g : inst) : inst * nat :=
  let i := List.length g in
  add g (mkobj ty_os_connection [] [(RConnection, i)] [(RConnection, i)]).

(* Publisher::new: port tag (held by the shared state), data segment, registry entry (released
   by Drop for Publisher).  Returns (Publisher, PublisherSharedState). *)
Definition mk_publisher (g : inst) (sns sst : nat) (conns : list nat) : inst * (nat * nat) :=
  let '(g, snd_) := mk_sender PubSub g sns sst conns in
  let i := List.length g in
  let '(g, pss) := add g (withres "PublisherSharedState" [snd_] [(RPortTag, i)]) in
  let '(g, pb) := add g (withres "Publisher" [pss] [(RRegistryEntry, i)]) in
  (g, (pb, pss)).

Definition mk_subscriber (g : inst) (sst : nat) (conns : list nat) : inst * (nat * nat) :=
  let '(g, rcv) := mk_receiver PubSub g sst conns in
  let i := List.length g in
  let '(g, sss) := add g (withres "SubscriberSharedState" [rcv] [(RPortTag, i)]) in
  let '(g, sb) := add g (withres "Subscriber" [sss] [(RRegistryEntry, i)]) in
  (g, (sb, sss)).

(* Publisher::loan: SampleMut -> ChunkMutSharedState -> ChunkMutInnerSharedState -> PublisherSharedState *)
Definition mk_sample_mut (g : inst) (pss : nat) : inst * nat :=
  let '(g, inner) := add g (plain "ChunkMutInnerSharedState<PublisherSharedState>" [pss]) in
  let '(g, cm) := add g (plain "ChunkMutSharedState<PublisherSharedState>" [inner]) in
  add g (plain "SampleMut" [cm]).

(* Subscriber::receive: Sample -> SubscriberSharedState *)
Definition mk_sample (g : inst) (sss : nat) : inst * nat := add g (plain "Sample" [sss]).

(* event: Notifier -> ListenerConnections -> SharedServiceState; the Notifier itself holds the
   port tag and the registry entry; Listener holds service state, port tag, event channel *)
Definition mk_notifier (g : inst) (sst : nat) : inst * nat :=
  let '(g, sss) := add g (plain (gen "SharedServiceState" Event) [sst]) in
  let '(g, lc) := add g (plain "ListenerConnections" [sss]) in
  let i := List.length g in
  add g (withres "Notifier" [lc] [(RPortTag, i); (RRegistryEntry, i)]).

Definition mk_listener (g : inst) (sst : nat) : inst * nat :=
  let '(g, sss) := add g (plain (gen "SharedServiceState" Event) [sst]) in
  let i := List.length g in
  add g (withres "Listener" [sss] [(RPortTag, i); (RRegistryEntry, i); (REventChannel, i)]).

(* request-response: ClientSharedState {request_sender, response_receiver, port_tag} releases the
   registry entry in its own Drop; SharedServerState {response_sender, request_receiver,
   service_state, port_tag} likewise.  Returns (Client, ClientSharedState). *)
Definition mk_client (g : inst) (sns sst creq cresp : nat) : inst * (nat * nat) :=
  let '(g, snd_) := mk_sender ReqRes g sns sst [creq] in
  let '(g, rcv) := mk_receiver ReqRes g sst [cresp] in
  let i := List.length g in
  let '(g, css) := add g (withres "ClientSharedState" [snd_; rcv] [(RPortTag, i); (RRegistryEntry, i)]) in
  let '(g, c) := add g (plain "Client" [css]) in
  (g, (c, css)).

Definition mk_server (g : inst) (sns sst creq cresp : nat) : inst * (nat * nat) :=
  let '(g, snd_) := mk_sender ReqRes g sns sst [cresp] in
  let '(g, rcv) := mk_receiver ReqRes g sst [creq] in
  let '(g, sss) := add g (plain (gen "SharedServiceState" ReqRes) [sst]) in
  let i := List.length g in
  let '(g, sv) := add g (withres "SharedServerState" [snd_; rcv; sss] [(RPortTag, i); (RRegistryEntry, i)]) in
  let '(g, s) := add g (plain "Server" [sv]) in
  (g, (s, sv)).

(* Client::loan + send: PendingResponse -> RequestMut -> ChunkMutSharedState -> Inner -> ClientSharedState *)
Definition mk_pending_response (g : inst) (css : nat) : inst * nat :=
  let '(g, inner) := add g (plain "ChunkMutInnerSharedState<ClientSharedState>" [css]) in
  let '(g, cm) := add g (plain "ChunkMutSharedState<ClientSharedState>" [inner]) in
  let '(g, rq) := add g (plain "RequestMut" [cm]) in
  add g (plain "PendingResponse" [rq]).

Definition mk_active_request (g : inst) (sv : nat) : inst * nat := add g (plain "ActiveRequest" [sv]).
Definition mk_response (g : inst) (css : nat) : inst * nat := add g (plain "Response" [css]).
Definition mk_response_mut (g : inst) (sv : nat) : inst * nat :=
  let '(g, inner) := add g (plain "ChunkMutInnerSharedState<SharedServerState>" [sv]) in
  let '(g, cm) := add g (plain "ChunkMutSharedState<SharedServerState>" [inner]) in
  add g (plain "ResponseMut" [cm]).

(* blackboard: Writer {shared_state, port_tag}; WriterSharedState::drop releases the registry
   entry; Reader {shared_state}; ReaderSharedState {service_state, port_tag}; Reader::drop
   releases the registry entry.  Returns (port, shared state). *)
Definition mk_writer (g : inst) (sst : nat) : inst * (nat * nat) :=
  let '(g, sss) := add g (plain (gen "SharedServiceState" Blackboard) [sst]) in
  let i := List.length g in
  let '(g, ws) := add g (withres "WriterSharedState" [sss] [(RRegistryEntry, i)]) in
  let '(g, w) := add g (withres "Writer" [ws] [(RPortTag, i)]) in
  (g, (w, ws)).

Definition mk_reader (g : inst) (sst : nat) : inst * (nat * nat) :=
  let '(g, sss) := add g (plain (gen "SharedServiceState" Blackboard) [sst]) in
  let i := List.length g in
  let '(g, rs) := add g (withres "ReaderSharedState" [sss] [(RPortTag, i)]) in
  let '(g, r) := add g (withres "Reader" [rs] [(RRegistryEntry, i)]) in
  (g, (r, rs)).

Definition mk_entry_handle (g : inst) (rs : nat) : inst * nat := add g (plain "EntryHandle" [rs]).
Definition mk_entry_handle_mut (g : inst) (ws : nat) : inst * nat := add g (plain "EntryHandleMut" [ws]).

(* ---------- observation: what exists after a state ---------- *)
(* number of resources of kind k that exist in state s (created by an object not yet finalised) *)
Definition count_kind (g : inst) (s : st) (k : rkind) : nat :=
  List.length (filter (fun r => rkind_eqb (fst r) k)
                 (flat_map (fun o => o_removes (getobj g o)) (live_objs g s))).
Definition count_ty_alive (g : inst) (s : st) (t : nat) : nat :=
  List.length (filter (fun o => Nat.eqb (o_ty (getobj g o)) t) (live_objs g s)).

(* ---------- the object graphs the harness builds (harness/g3/c17), handles in slot order ----------
   one or two nodes, each opening the same service once; port A on the first node's service
   handle, port B on the last node's; then the objects in flight:
     pub-sub    node.. svc.. publisher subscriber sample_mut(loan) sample(received)
     event      node.. svc.. notifier listener
     req-res    node.. svc.. client server pending_response active_request [response, one node only]
     blackboard node.. svc.. writer reader entry_handle_mut entry_handle *)
Definition scenario (p : pattern) (two : bool) : inst * list nat :=
  let g : inst := [] in
  let '(g, (n0, sns0)) := mk_node g in
  let '(g, os) := mk_os_service g in
  let '(g, (pf0, sst0)) := mk_service p g sns0 os in
  let '(g, nodes, svcs, snsB, sstB) :=
    (if two then
       let '(g, (n1, sns1)) := mk_node g in
       let '(g, (pf1, sst1)) := mk_service p g sns1 os in
       (g, [n0; n1], [pf0; pf1], sns1, sst1)
     else (g, [n0], [pf0], sns0, sst0)) in
  match p with
  | PubSub =>
    let '(g, c) := mk_os_connection g in
    let '(g, (pb, pss)) := mk_publisher g sns0 sst0 [c] in
    let '(g, (sb, sss)) := mk_subscriber g sstB [c] in
    let '(g, sm) := mk_sample_mut g pss in
    let '(g, sa) := mk_sample g sss in
    (g, (nodes ++ svcs ++ [pb; sb; sm; sa])%list)
  | Event =>
    let '(g, nt) := mk_notifier g sst0 in
    let '(g, ls) := mk_listener g sstB in
    (g, (nodes ++ svcs ++ [nt; ls])%list)
  | ReqRes =>
    let '(g, creq) := mk_os_connection g in
    let '(g, cresp) := mk_os_connection g in
    let '(g, (cl, css)) := mk_client g sns0 sst0 creq cresp in
    let '(g, (sv, svs)) := mk_server g snsB sstB creq cresp in
    let '(g, pr) := mk_pending_response g css in
    let '(g, ar) := mk_active_request g svs in
    if two then (g, (nodes ++ svcs ++ [cl; sv; pr; ar])%list)
    else let '(g, rs) := mk_response g css in (g, (nodes ++ svcs ++ [cl; sv; pr; ar; rs])%list)
  | Blackboard =>
    let '(g, (w, ws)) := mk_writer g sst0 in
    let '(g, (r, rs)) := mk_reader g sstB in
    let '(g, em) := mk_entry_handle_mut g ws in
    let '(g, eh) := mk_entry_handle g rs in
    (g, (nodes ++ svcs ++ [w; r; em; eh])%list)
  end.

(* replay of a drop order (slot numbers) on a scenario: the observable resource counts after
   each drop, for the correspondence with the implementation (ocaml/c17/driver.ml) *)
Definition obs_kinds : list rkind :=
  [RNodeMonitor; RNodeDetails; RNodeDir; RServiceTag; RPortTag; RServiceStatic; RServiceDynamic;
   RServiceAux; RDataSegment; RConnection; REventChannel].
Definition observe (g : inst) (s : st) : list nat := map (count_kind g s) obs_kinds.
Definition scenario_ok (p : pattern) (two : bool) : bool :=
  let '(g, H) := scenario p two in wf_instb keep_edges g H.
Definition start (p : pattern) (two : bool) : st := let '(g, H) := scenario p two in init g H.
(* drop the handle in slot k; None = the model itself fails (Underflow / OutOfFuel) *)
Definition drop_slot (p : pattern) (two : bool) (k : nat) (s : st) : option st :=
  let '(g, H) := scenario p two in
  match run_all keep_edges g [nth k H 0] s with Done s' => Some s' | _ => None end.
Definition observe_scn (p : pattern) (two : bool) (s : st) : list nat :=
  let '(g, _) := scenario p two in observe g s.
Definition handle_alive (p : pattern) (two : bool) (k : nat) (s : st) : bool :=
  let '(_, H) := scenario p two in alive s (nth k H 0).
Definition nslots (p : pattern) (two : bool) : nat := List.length (snd (scenario p two)).

(* ---------- request-response, two requests of one client in flight (harness family reqres2) ----------
   slots: node svc client server pending_b pending_a response_b active_a active_b *)
Definition scenario_rr2 : inst * list nat :=
  let g : inst := [] in
  let '(g, (n0, sns0)) := mk_node g in
  let '(g, os) := mk_os_service g in
  let '(g, (pf0, sst0)) := mk_service ReqRes g sns0 os in
  let '(g, creq) := mk_os_connection g in
  let '(g, cresp) := mk_os_connection g in
  let '(g, (cl, css)) := mk_client g sns0 sst0 creq cresp in
  let '(g, (sv, svs)) := mk_server g sns0 sst0 creq cresp in
  let '(g, pb) := mk_pending_response g css in
  let '(g, pa) := mk_pending_response g css in
  let '(g, rb) := mk_response g css in
  let '(g, aa) := mk_active_request g svs in
  let '(g, ab) := mk_active_request g svs in
  (g, [n0; pf0; cl; sv; pb; pa; rb; aa; ab]).

(* ---------- a receiver and the connection of a sender that has gone away ----------
   port/details/receiver.rs.  The edge Receiver -Owned-> receiver::Connection of the table is
   DYNAMIC: when the sender disappears the receiver moves the connection (and with it the
   mapping of the sender's data segment, DataSegmentView) to `to_be_removed_connections` and
   releases it later.  What a survivor needs from it: a borrowed chunk (Sample / Response /
   ActiveRequest holds a pointer into the segment) and, per channel, the delivered but not
   yet received chunks.  A channel = (has_data, borrow_count).  The conditions are taken from
   the generated table (own_decisions), as token text. *)
Definition chan := (bool * nat)%type.
Definition decision (site : string) : string :=
  match filter (fun d => String.eqb (fst d) site) own_decisions with
  | d :: _ => snd d
  | [] => ""
  end.
(* `if has_data && has_borrows { break; }` -- any other text is not a known early exit *)
Definition break_is_and : bool :=
  String.eqb (decision "receiver_channels_have_data_or_borrows.break_if") "has_data && has_borrows".
Definition break_is_or : bool :=
  String.eqb (decision "receiver_channels_have_data_or_borrows.break_if") "has_data || has_borrows".
(* `if !has_borrows && !has_data { remove }` (since fix 9915d96); before: `if !has_borrows`.  Arguments: the
   scan result (has_data, has_borrows); an unknown text releases unconditionally, so nothing is provable. *)
Definition remove_if_old : bool -> bool -> bool := fun _ b => negb b.
Definition remove_rule_of (txt : string) : bool -> bool -> bool :=
  if String.eqb txt "! has_borrows && ! has_data" then (fun d b => negb b && negb d)
  else if String.eqb txt "! has_borrows" then remove_if_old
  else (fun _ _ => true).
Definition remove_rule_code : bool -> bool -> bool :=
  remove_rule_of (decision "receive_from_to_be_removed_connections.remove_if").
Definition keep_if_data_or_borrows : bool :=
  String.eqb (decision "prepare_connection_removal.keep_connection") "connection_has_data | connection_has_borrows".

(* Receiver::receiver_channels_have_data_or_borrows: scan the channels in order, accumulate,
   leave the loop early when the break condition holds.  brk = the early-exit test. *)
Fixpoint scan_from (brk : bool -> bool -> bool) (chs : list chan) (d b : bool) : bool * bool :=
  match chs with
  | [] => (d, b)
  | (cd, cb) :: r =>
    let d' := d || cd in
    let b' := b || Nat.ltb 0 cb in
    if brk d' b' then (d', b') else scan_from brk r d' b'
  end.
Definition brk_code : bool -> bool -> bool :=
  if break_is_and then andb else if break_is_or then orb else (fun _ _ => true).
Definition scan (chs : list chan) : bool * bool := scan_from brk_code chs false false.

(* Receiver::prepare_connection_removal: keep (as expired) iff data or borrows *)
Definition keep_on_disconnect (chs : list chan) : bool :=
  let '(d, b) := scan chs in if keep_if_data_or_borrows then d || b else false.

(* Receiver::receive_from_to_be_removed_connections, one expired connection, a receive on
   channel c with per-channel borrow limit m: *)
Inductive expired_step := XSkip | XReceive | XKeep | XRemove.
Definition poll_expired_with (rule : bool -> bool -> bool) (chs : list chan) (c m : nat) : expired_step :=
  let '(cd, cb) := nth c chs (false, 0) in
  if Nat.eqb cb m then XSkip
  else if cd then XReceive
  else let '(d, b) := scan chs in if rule d b then XRemove else XKeep.
Definition poll_expired : list chan -> nat -> nat -> expired_step := poll_expired_with remove_rule_code.

(* ---------- capacity of a subscriber's list of expired connections ----------
   port/subscriber.rs Subscriber::new sizes `to_be_removed_connections` with
   max(config subscriber_expired_connection_buffer, subscriber_max_borrowed_samples) (rows of
   own_decisions); Receiver::prepare_connection_removal parks the connection of a departed sender
   in that list.  An expired connection is summarised by (has undelivered data, borrowed chunks). *)
Definition cap_arg_is_sized : bool :=
  String.eqb (decision "Subscriber::new.to_be_removed_connections.capacity") "number_of_to_be_removed_connections".
Definition cap_size_is_max : bool :=
  String.eqb (decision "Subscriber::new.number_of_to_be_removed_connections")
    "if subscriber_expired_connection_buffer >= subscriber_max_borrowed_samples then subscriber_expired_connection_buffer else subscriber_max_borrowed_samples".
Definition cap_arg_is_raw_buffer : bool :=
  String.eqb (decision "Subscriber::new.to_be_removed_connections.capacity") "subscriber_expired_connection_buffer".
(* an unknown text gives capacity 0: nothing is provable for it *)
Definition expired_capacity (buffer maxb : nat) : nat :=
  if cap_arg_is_sized && cap_size_is_max then (if Nat.leb maxb buffer then buffer else maxb)
  else if cap_arg_is_raw_buffer then buffer else 0.

Definition econn := (bool * nat)%type.
Inductive park_result := Parked | ParkedEvictingIdle | ParkedDiscardingData | NewDiscarded | ParkFatalPanic.
(* Receiver::prepare_connection_removal for a connection c that has data or borrows, list l, capacity cap:
   push; if full evict a connection without data and borrows; else, if c has borrows, evict one without
   borrows (its undelivered data is discarded, warn!); if the push still fails: fatal_panic when c has
   borrows, otherwise c itself is discarded (warn!) *)
Definition park (cap : nat) (l : list econn) (c : econn) : park_result :=
  if Nat.ltb (List.length l) cap then Parked
  else if existsb (fun e => negb (fst e) && Nat.eqb (snd e) 0) l then ParkedEvictingIdle
  else if Nat.ltb 0 (snd c) then
    (if existsb (fun e => Nat.eqb (snd e) 0) l then ParkedDiscardingData else ParkFatalPanic)
  else NewDiscarded.

(* ---------- a refused open leaves nothing ----------
   service/builder/mod.rs BuilderWithServiceType::open: the service tag of the opening node is created
   with ownership (a guard that removes the file when dropped), then the fallible steps run
   (open_service_resource, open_dynamic_config_storage: ExceedsMaxNumberOfNodes, IsMarkedForDestruction, ...),
   and only after the last of them the ownership is released (the tag then lives until ServiceState::drop).
   The order of these steps is a row of own_decisions. *)
Inductive ostep := OCreateTag | OFallible | OReleaseTag.
Definition open_steps_code : list ostep :=
  let o := decision "BuilderWithServiceType::open.step_order" in
  if String.eqb o "create_service_tag < open_service_resource < open_dynamic_config_storage < release_tag_ownership"
  then [OCreateTag; OFallible; OFallible; OReleaseTag]
  else if String.eqb o "create_service_tag < release_tag_ownership < open_service_resource < open_dynamic_config_storage"
  then [OCreateTag; OReleaseTag; OFallible; OFallible]
  else [OReleaseTag; OCreateTag; OFallible].
(* the k-th fallible step fails (early return, the guard is dropped: an OWNED tag is removed).
   Some left = the open failed and `left` says whether the tag file is still there; None = it succeeded *)
Fixpoint open_run (steps : list ostep) (k : nat) (ex own : bool) : option bool :=
  match steps with
  | [] => None
  | OCreateTag :: r => open_run r k true true
  | OReleaseTag :: r => open_run r k ex false
  | OFallible :: r => match k with O => Some (ex && negb own) | S k' => open_run r k' ex own end
  end.
