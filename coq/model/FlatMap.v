(* Concrete model of iceoryx2-bb/container/src/flatmap.rs (MetaFlatMap): a MetaSlotMap of
   Entry { id: K, value: V } searched linearly in slot-key order (iter_impl().skip_while(..)).
   The slot map model stores numbers, so an entry is coded as id * 2^32 + value (the harness
   uses ids and values below 2^32).  In drop logs a key with id k appears as KTAG + k, a
   value as itself; dropping an Entry drops id then value (field order). *)
From V Require Import model.Base model.Obs model.RingQueue model.SlotMap.
Open Scope N_scope.

Definition KTAG : N := 1000000.
Definition W : N := 4294967296.
Definition enc (k v : N) : N := k * W + v.
Definition ekey (e : N) : N := e / W.
Definition eval (e : N) : N := e mod W.
Definition edrops (l : list N) : list N := flat_map (fun e => [KTAG + ekey e; eval e]) l.

(* first slot (ascending slot key) whose entry has the id: (slot key, entry) *)
Fixpoint fm_lookup_from (m : slotmap) (l : list (option N)) (k id : N) : res (option (N * N)) :=
  match l with
  | [] => Val None
  | None :: t => fm_lookup_from m t (k + 1) id
  | Some d :: t =>
    v <- geti (sdata m) d ;;
    match v with
    | None => Panic
    | Some e => if N.eqb (ekey e) id then Val (Some (k, e)) else fm_lookup_from m t (k + 1) id
    end
  end.
Definition fm_lookup (m : slotmap) (id : N) : res (option (N * N)) := fm_lookup_from m (i2d m) 0 id.

(* insert_impl: KeyAlreadyExists is checked first (the arguments are dropped value first, then
   id), then the slot map insert; IsFull drops the Entry (id, then value) *)
Definition fm_insert (m : slotmap) (id v : N) : res (slotmap * obs * list N) :=
  r <- fm_lookup m id ;;
  match r with
  | Some _ => Val (m, OErr EKeyExists, [v; KTAG + id])
  | None =>
    r2 <- sm_insert m (enc id v) ;;
    match r2 with
    | (m', OO None, d) => Val (m', OErr EIsFull, edrops d)
    | (m', _, d) => Val (m', OUnit, edrops d)
    end
  end.

(* get_ref_impl / get_impl (clone) / contains_impl *)
Definition fm_get (m : slotmap) (id : N) : res obs :=
  r <- fm_lookup m id ;;
  Val (OO (match r with Some (_, e) => Some (eval e) | None => None end)).
Definition fm_contains (m : slotmap) (id : N) : res obs :=
  r <- fm_lookup m id ;; Val (OB (match r with Some _ => true | None => false end)).

(* remove_impl: the slot map remove hands the Entry back, `.map(|e| e.value)` drops its id *)
Definition fm_remove (m : slotmap) (id : N) : res (slotmap * obs * list N) :=
  r <- fm_lookup m id ;;
  match r with
  | None => Val (m, OO None, [])
  | Some (k, _) =>
    r2 <- sm_remove m k ;;
    match r2 with
    | (m', OO (Some e), _) => Val (m', OO (Some (eval e)), [KTAG + ekey e])
    | (m', _, _) => Val (m', OO None, [])
    end
  end.

(* list_keys_impl: ids in slot-key order *)
Fixpoint fm_keys_from (m : slotmap) (l : list (option N)) : res (list N) :=
  match l with
  | [] => Val []
  | None :: t => fm_keys_from m t
  | Some d :: t =>
    v <- geti (sdata m) d ;;
    match v with
    | None => Panic
    | Some e => r <- fm_keys_from m t ;; Val (ekey e :: r)
    end
  end.

Inductive fop := FInsert (id v : N) | FGet (id : N) | FGetRef (id : N) | FRemove (id : N) | FContains (id : N) | FKeys | FLen | FDrop.

Definition fm_step (m : slotmap) (o : fop) : slotmap * obs * list N :=
  match o with
  | FInsert id v => unres3 m (fm_insert m id v)
  | FGet id | FGetRef id => unres1 m (fm_get m id)
  | FRemove id => unres3 m (fm_remove m id)
  | FContains id => unres1 m (fm_contains m id)
  | FKeys => unres1 m (l <- fm_keys_from m (i2d m) ;; Val (OL l))
  | FLen => (m, ON (smlen m), [])
  | FDrop => (m, OUnit, edrops (sm_drop_log m))
  end.

(* ---- the reference: a finite map id -> value as an association list without duplicate ids,
   bounded by the capacity; insert of a present id fails with KeyAlreadyExists (checked
   first), insert into a full map with IsFull, both change nothing.  The order of list_keys and
   of the drops at container drop is not fixed by the reference (compared as multisets). *)
Record fmap := { fcap : N; fkv : list (N * N) }.
Definition fmap_new (c : N) : fmap := {| fcap := c; fkv := [] |}.
Fixpoint alookup (l : list (N * N)) (id : N) : option N :=
  match l with [] => None | (k, v) :: t => if N.eqb k id then Some v else alookup t id end.
Definition aremove (l : list (N * N)) (id : N) : list (N * N) := filter (fun kv => negb (N.eqb (fst kv) id)) l.

Definition fmap_step (s : fmap) (o : fop) : fmap * obs * list N :=
  match o with
  | FInsert id v =>
    match alookup (fkv s) id with
    | Some _ => (s, OErr EKeyExists, [v; KTAG + id])
    | None =>
      if N.ltb (lenN (fkv s)) (fcap s) then ({| fcap := fcap s; fkv := fkv s ++ [(id, v)] |}, OUnit, [])
      else (s, OErr EIsFull, [KTAG + id; v])
    end
  | FGet id | FGetRef id => (s, OO (alookup (fkv s) id), [])
  | FRemove id =>
    match alookup (fkv s) id with
    | Some v => ({| fcap := fcap s; fkv := aremove (fkv s) id |}, OO (Some v), [KTAG + id])
    | None => (s, OO None, [])
    end
  | FContains id => (s, OB (is_some (alookup (fkv s) id)), [])
  | FKeys => (s, OL (map fst (fkv s)), [])
  | FLen => (s, ON (lenN (fkv s)), [])
  | FDrop => (s, OUnit, flat_map (fun kv => [KTAG + fst kv; snd kv]) (fkv s))
  end.
