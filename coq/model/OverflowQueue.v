(* Step model of iceoryx2-bb/lock-free/src/spsc/safely_overflowing_index_queue.rs.
   The queue has capacity + 1 slots; slot of position p is p % (capacity + 1).
     push(v): w := load write_position (Acquire); r := load read_position (Acquire);
              full := (w == r + capacity);
              cell(w % m).get(); write v;
              store write_position := w + 1 (Release);
              if full && CAS read_position r -> r+1 (AcqRel / Relaxed) succeeds
                   { cell(r % m).get(); read old; return Some(old) } else return None
     pop():   r := load read_position (Acquire); w := load write_position (Acquire);
              if r == w return None;
              loop { cell(r % m).get(); read val;
                     CAS read_position r -> r+1 (Release / Acquire): Ok => return Some(val)
                        Err(cur) => { r := cur; if r == load write_position (Acquire) return None } } }
   One step = one of these accesses. *)
From V Require Import model.Base model.Conc model.Events.
Open Scope N_scope.

Inductive oop := OAcqP | ORelP | OAcqC | ORelC | OPush (v : N) | OPop.

Inductive opc :=
| Idle
| PushLoadRp (v w : N)
| PushWrite (v w r : N)
| PushStore (v w r : N)
| PushCas (w r : N)
| PushReadOld (r x : N)      (* x: ghost, the slot value at the moment of the successful CAS *)
| PopLoadWp (r : N)
| PopRead (r : N)
| PopCas (r v : N)
| PopRecheck (r : N).

Record olst := { prog : list oop; at_pc : opc; holdsP : bool; holdsC : bool }.

Record ogst := {
  cap : N; wp : N; rp : N; slots : list N; hasP : bool; hasC : bool;
  (* ghost *)
  ownerP : option Datatypes.nat; ownerC : option Datatypes.nat;
  ovf : bool;                    (* a push has published into a full queue and not yet tried to evict *)
  pushed : list N;               (* every pushed value, in publication (StoreWp) order *)
  removed : list (N * bool)      (* every value taken from the head, in order; true = by the consumer, false = evicted *)
}.

Definition B_WP : N := 0.  Definition B_RP : N := 1.  Definition B_SLOT : N := 2.
Definition B_HASP : N := 3. Definition B_HASC : N := 4.

Definition m_of (g : ogst) : N := cap g + 1.

Definition set_l (l : olst) (p : list oop) (c : opc) : olst :=
  {| prog := p; at_pc := c; holdsP := holdsP l; holdsC := holdsC l |}.

Definition upd_g (g : ogst) (wp' rp' : N) (slots' : list N) (ovf' : bool) (pushed' : list N) (removed' : list (N * bool)) : ogst :=
  {| cap := cap g; wp := wp'; rp := rp'; slots := slots'; hasP := hasP g; hasC := hasC g;
     ownerP := ownerP g; ownerC := ownerC g; ovf := ovf'; pushed := pushed'; removed := removed' |}.

Definition step (t : nat) (g : ogst) (l : olst) : option (ogst * olst * list ev) :=
  match at_pc l with
  | Idle =>
    match prog l with
    | [] => None
    | OAcqP :: p =>
      if hasP g
      then Some ({| cap := cap g; wp := wp g; rp := rp g; slots := slots g; hasP := false; hasC := hasC g;
                    ownerP := Some t; ownerC := ownerC g; ovf := ovf g; pushed := pushed g; removed := removed g |},
                 {| prog := p; at_pc := Idle; holdsP := true; holdsC := holdsC l |},
                 [EAcc 1 B_HASP 0 KCas Acquire Relaxed 1 0 true; ERet 1])
      else Some (g, set_l l p Idle, [EAcc 1 B_HASP 0 KCas Acquire Relaxed 0 0 false; ERet 0])
    | ORelP :: p =>
      if holdsP l
      then Some ({| cap := cap g; wp := wp g; rp := rp g; slots := slots g; hasP := true; hasC := hasC g;
                    ownerP := None; ownerC := ownerC g; ovf := ovf g; pushed := pushed g; removed := removed g |},
                 {| prog := p; at_pc := Idle; holdsP := false; holdsC := holdsC l |},
                 [EAcc 2 B_HASP 0 KStore Release Release 0 1 true; ERet 0])
      else Some (g, set_l l p Idle, [])
    | OAcqC :: p =>
      if hasC g
      then Some ({| cap := cap g; wp := wp g; rp := rp g; slots := slots g; hasP := hasP g; hasC := false;
                    ownerP := ownerP g; ownerC := Some t; ovf := ovf g; pushed := pushed g; removed := removed g |},
                 {| prog := p; at_pc := Idle; holdsP := holdsP l; holdsC := true |},
                 [EAcc 3 B_HASC 0 KCas Acquire Relaxed 1 0 true; ERet 1])
      else Some (g, set_l l p Idle, [EAcc 3 B_HASC 0 KCas Acquire Relaxed 0 0 false; ERet 0])
    | ORelC :: p =>
      if holdsC l
      then Some ({| cap := cap g; wp := wp g; rp := rp g; slots := slots g; hasP := hasP g; hasC := true;
                    ownerP := ownerP g; ownerC := None; ovf := ovf g; pushed := pushed g; removed := removed g |},
                 {| prog := p; at_pc := Idle; holdsP := holdsP l; holdsC := false |},
                 [EAcc 4 B_HASC 0 KStore Release Release 0 1 true; ERet 0])
      else Some (g, set_l l p Idle, [])
    | OPush v :: p =>
      if holdsP l
      then Some (g, set_l l p (PushLoadRp v (wp g)), [EAcc 30 B_WP 0 KLoad Acquire Acquire (wp g) 0 true])
      else Some (g, set_l l p Idle, [])
    | OPop :: p =>
      if holdsC l
      then Some (g, set_l l p (PopLoadWp (rp g)), [EAcc 40 B_RP 0 KLoad Acquire Acquire (rp g) 0 true])
      else Some (g, set_l l p Idle, [])
    end
  | PushLoadRp v w =>
    Some (g, set_l l (prog l) (PushWrite v w (rp g)), [EAcc 31 B_RP 0 KLoad Acquire Acquire (rp g) 0 true])
  | PushWrite v w r =>
    let i := N.modulo w (m_of g) in
    Some (upd_g g (wp g) (rp g) (updN (slots g) i v) (ovf g) (pushed g) (removed g),
          set_l l (prog l) (PushStore v w r),
          [EAcc 32 B_SLOT i KCell NotAtomic NotAtomic 0 0 true])
  | PushStore v w r =>
    let e := EAcc 33 B_WP 0 KStore Release Release 0 (w + 1) true in
    if N.eqb w (r + cap g)
    then Some (upd_g g (w + 1) (rp g) (slots g) true (pushed g ++ [v]) (removed g),
               set_l l (prog l) (PushCas w r), [e])
    else Some (upd_g g (w + 1) (rp g) (slots g) (ovf g) (pushed g ++ [v]) (removed g),
               set_l l (prog l) Idle, [e; ERet 0])
  | PushCas w r =>
    if N.eqb (rp g) r
    then let x := nthN (slots g) (N.modulo r (m_of g)) 0 in
         Some (upd_g g (wp g) (r + 1) (slots g) false (pushed g) (removed g ++ [(x, false)]),
               set_l l (prog l) (PushReadOld r x),
               [EAcc 34 B_RP 0 KCas AcqRel Relaxed r (r + 1) true])
    else Some (upd_g g (wp g) (rp g) (slots g) false (pushed g) (removed g),
               set_l l (prog l) Idle,
               [EAcc 34 B_RP 0 KCas AcqRel Relaxed (rp g) (r + 1) false; ERet 0])
  | PushReadOld r x =>
    let i := N.modulo r (m_of g) in
    Some (g, set_l l (prog l) Idle,
          [EAcc 35 B_SLOT i KCell NotAtomic NotAtomic 0 0 true; ERet (nthN (slots g) i 0 + 1)])
  | PopLoadWp r =>
    let e := EAcc 41 B_WP 0 KLoad Acquire Acquire (wp g) 0 true in
    if N.eqb r (wp g)
    then Some (g, set_l l (prog l) Idle, [e; ERet 0])
    else Some (g, set_l l (prog l) (PopRead r), [e])
  | PopRead r =>
    let i := N.modulo r (m_of g) in
    Some (g, set_l l (prog l) (PopCas r (nthN (slots g) i 0)),
          [EAcc 42 B_SLOT i KCell NotAtomic NotAtomic 0 0 true])
  | PopCas r v =>
    if N.eqb (rp g) r
    then Some (upd_g g (wp g) (r + 1) (slots g) (ovf g) (pushed g) (removed g ++ [(v, true)]),
               set_l l (prog l) Idle,
               [EAcc 43 B_RP 0 KCas Release Acquire r (r + 1) true; ERet (v + 1)])
    else Some (g, set_l l (prog l) (PopRecheck (rp g)),
               [EAcc 43 B_RP 0 KCas Release Acquire (rp g) (r + 1) false])
  | PopRecheck r =>
    let e := EAcc 44 B_WP 0 KLoad Acquire Acquire (wp g) 0 true in
    if N.eqb r (wp g)
    then Some (g, set_l l (prog l) Idle, [e; ERet 0])
    else Some (g, set_l l (prog l) (PopRead r), [e])
  end.

Definition g_init (c : N) : ogst :=
  {| cap := c; wp := 0; rp := 0; slots := repeat 0%N (N.to_nat (c + 1)); hasP := true; hasC := true;
     ownerP := None; ownerC := None; ovf := false; pushed := []; removed := [] |}.
Definition l_init (p : list oop) : olst := {| prog := p; at_pc := Idle; holdsP := false; holdsC := false |}.
Definition init (c : N) (progs : nat -> list oop) : cfg ogst olst := (g_init c, fun t => l_init (progs t)).

Fixpoint content_from (sl : list N) (m pos : N) (n : nat) : list N :=
  match n with
  | O => []
  | S k => nthN sl (N.modulo pos m) 0 :: content_from sl m (pos + 1) k
  end.
Definition content (g : ogst) : list N := content_from (slots g) (m_of g) (rp g) (N.to_nat (wp g - rp g)).
