(* Concrete model of iceoryx2-bb/container/src/vector/mod.rs (trait Vector<T>, shared by
   StaticVec / PolymorphicVec / RelocatableVec through VectorView: data() is a slice of
   `capacity` MaybeUninit<T>, len a u64).  Field for field: len, capacity, the buffer.
   Slots at index >= len keep whatever bits were there (MaybeUninit), exactly as memmove
   leaves them.  `data[idx]` on the slice is bounds-checked by Rust: out of range = Panic.
   Elements are numbers (ids); the third component of a step is the drop log of that call
   (values whose Drop ran inside the call, in order), which includes a by-value argument that
   was rejected. *)
From V Require Import model.Base model.Obs.

Record vec := { vlen : N; vcap : N; vbuf : list N }.

(* StaticVec::new / PolymorphicVec::new / RelocatableVec::new_uninit+init *)
Definition vec_new (c : N) : vec := {| vlen := 0; vcap := c; vbuf := repeat 0%N (N.to_nat c) |}.

(* data[i] read / write on the slice: bounds-checked *)
Definition rd (b : list N) (i : N) : res N :=
  if N.ltb i (lenN b) then Val (nthN b i 0%N) else Panic.
Definition wr (b : list N) (i : N) (x : N) : res (list N) :=
  if N.ltb i (lenN b) then Val (updN b i x) else Panic.

(* core::ptr::copy(ptr+src, ptr+dst, n) = memmove: read the n source elements, then write them *)
Fixpoint blit (src : list N) (dst : nat) (buf : list N) : list N :=
  match src with
  | [] => buf
  | x :: t => blit t (S dst) (upd buf dst x)
  end.
Definition copy_within (buf : list N) (src dst n : N) : list N :=
  blit (firstn (N.to_nat n) (skipn (N.to_nat src) buf)) (N.to_nat dst) buf.

(* for idx in (lo .. lo+n).rev() { data[idx].assume_init_drop() }: the drop log *)
Fixpoint drop_rev (b : list N) (lo : N) (n : nat) : res (list N) :=
  match n with
  | O => Val []
  | S k =>
    match rd b (lo + N.of_nat k) with
    | Panic => Panic
    | Val x => match drop_rev b lo k with Panic => Panic | Val l => Val (x :: l) end
    end
  end.

(* for (i, e) in other.iter().enumerate() { data[i + len].write(e.clone()) } *)
Fixpoint write_from (b : list N) (pos : N) (l : list N) : res (list N) :=
  match l with
  | [] => Val b
  | x :: t => match wr b pos x with Panic => Panic | Val b' => write_from b' (pos + 1) t end
  end.

Definition vec_is_full (v : vec) : bool := N.eqb (vlen v) (vcap v).
Definition vec_is_empty (v : vec) : bool := N.eqb (vlen v) 0.
Definition with_buf (v : vec) (l : N) (b : list N) : vec := {| vlen := l; vcap := vcap v; vbuf := b |}.

(* Vector::push: full -> Err(InsertWouldExceedCapacity) (the value is dropped), else push_unchecked *)
Definition vec_push (v : vec) (x : N) : res (vec * obs * list N) :=
  if vec_is_full v then Val (v, OErr EExceedsCapacity, [x]) else
  match wr (vbuf v) (vlen v) x with
  | Panic => Panic
  | Val b => Val (with_buf v (vlen v + 1) b, OUnit, [])
  end.

(* Vector::pop *)
Definition vec_pop (v : vec) : res (vec * obs * list N) :=
  if vec_is_empty v then Val (v, OO None, []) else
  match rd (vbuf v) (vlen v - 1) with
  | Panic => Panic
  | Val x => Val (with_buf v (vlen v - 1) (vbuf v), OO (Some x), [])
  end.

(* Vector::insert: is_full first, then index > len, then shift right by one and write *)
Definition vec_insert (v : vec) (i x : N) : res (vec * obs * list N) :=
  if vec_is_full v then Val (v, OErr EExceedsCapacity, [x]) else
  if N.ltb (vlen v) i then Val (v, OErr EOutOfBounds, [x]) else
  let b1 := if N.eqb i (vlen v) then vbuf v else copy_within (vbuf v) i (i + 1) (vlen v - i) in
  match wr b1 i x with
  | Panic => Panic
  | Val b2 => Val (with_buf v (vlen v + 1) b2, OUnit, [])
  end.

(* Vector::remove: len <= index -> None; read, shift left by one *)
Definition vec_remove (v : vec) (i : N) : res (vec * obs * list N) :=
  if N.leb (vlen v) i then Val (v, OO None, []) else
  match rd (vbuf v) i with
  | Panic => Panic
  | Val x =>
    Val (with_buf v (vlen v - 1) (copy_within (vbuf v) (i + 1) i (vlen v - i - 1)), OO (Some x), [])
  end.

(* Vector::truncate: drops new_len..len in reverse order *)
Definition vec_truncate (v : vec) (n : N) : res (vec * obs * list N) :=
  if N.leb (vlen v) n then Val (v, OUnit, []) else
  match drop_rev (vbuf v) n (N.to_nat (vlen v - n)) with
  | Panic => Panic
  | Val d => Val (with_buf v n (vbuf v), OUnit, d)
  end.

(* Vector::clear: drops 0..len in reverse order *)
Definition vec_clear (v : vec) : res (vec * obs * list N) :=
  match drop_rev (vbuf v) 0 (N.to_nat (vlen v)) with
  | Panic => Panic
  | Val d => Val (with_buf v 0 (vbuf v), OUnit, d)
  end.

(* Vector::resize(new_len, value) = resize_with(new_len, || value.clone()); `value` itself is
   dropped when resize returns (after the truncation drops). *)
Definition vec_resize (v : vec) (n x : N) : res (vec * obs * list N) :=
  if N.ltb (vcap v) n then Val (v, OErr EExceedsCapacity, [x]) else
  if N.ltb n (vlen v) then
    match vec_truncate v n with
    | Panic => Panic
    | Val (v', _, d) => Val (v', OUnit, d ++ [x])
    end
  else
    (* data.iter_mut().take(new_len).skip(len): no indexing, cannot panic *)
    match write_from (vbuf v) (vlen v) (repeat x (N.to_nat (n - vlen v))) with
    | Panic => Panic
    | Val b => Val (with_buf v n b, OUnit, [x])
    end.

(* Vector::extend_from_slice: capacity < len + other.len() -> Err, nothing written *)
Definition vec_extend (v : vec) (l : list N) : res (vec * obs * list N) :=
  if N.ltb (vcap v) (vlen v + lenN l) then Val (v, OErr EExceedsCapacity, []) else
  match write_from (vbuf v) (vlen v) l with
  | Panic => Panic
  | Val b => Val (with_buf v (vlen v + lenN l) b, OUnit, [])
  end.

(* as_slice: &data()[0..len] *)
Definition vec_slice (v : vec) : res (list N) :=
  if N.ltb (lenN (vbuf v)) (vlen v) then Panic else Val (firstn (N.to_nat (vlen v)) (vbuf v)).

Inductive vop :=
| VPush (x : N) | VPop | VInsert (i x : N) | VRemove (i : N) | VClear | VTruncate (n : N)
| VResize (n x : N) | VExtend (l : list N) | VLen | VSlice.

Definition unres (v : vec) (r : res (vec * obs * list N)) : vec * obs * list N :=
  match r with Val x => x | Panic => (v, OP, []) end.

Definition vec_step (v : vec) (o : vop) : vec * obs * list N :=
  match o with
  | VPush x => unres v (vec_push v x)
  | VPop => unres v (vec_pop v)
  | VInsert i x => unres v (vec_insert v i x)
  | VRemove i => unres v (vec_remove v i)
  | VClear => unres v (vec_clear v)       (* also the container's Drop: drop() = clear() *)
  | VTruncate n => unres v (vec_truncate v n)
  | VResize n x => unres v (vec_resize v n x)
  | VExtend l => unres v (vec_extend v l)
  | VLen => (v, ON (vlen v), [])
  | VSlice => match vec_slice v with Val l => (v, OL l, []) | Panic => (v, OP, []) end
  end.

(* ---- the reference: alloc::vec::Vec semantics on a Coq list, with a capacity guard ---- *)
Record svec := { svcap : N; sitems : list N }.
Definition svec_new (c : N) : svec := {| svcap := c; sitems := [] |}.
Definition sv (s : svec) (l : list N) : svec := {| svcap := svcap s; sitems := l |}.

Definition svec_step (s : svec) (o : vop) : svec * obs * list N :=
  let l := sitems s in
  match o with
  | VPush x =>
    if N.ltb (lenN l) (svcap s) then (sv s (l ++ [x]), OUnit, []) else (s, OErr EExceedsCapacity, [x])
  | VPop =>
    match rev l with
    | [] => (s, OO None, [])
    | x :: r => (sv s (rev r), OO (Some x), [])
    end
  | VInsert i x =>
    if negb (N.ltb (lenN l) (svcap s)) then (s, OErr EExceedsCapacity, [x])
    else if N.ltb (lenN l) i then (s, OErr EOutOfBounds, [x])
    else (sv s (firstn (N.to_nat i) l ++ x :: skipn (N.to_nat i) l), OUnit, [])
  | VRemove i =>
    if N.ltb i (lenN l)
    then (sv s (firstn (N.to_nat i) l ++ skipn (S (N.to_nat i)) l), OO (Some (nthN l i 0%N)), [])
    else (s, OO None, [])
  | VClear => (sv s [], OUnit, rev l)
  | VTruncate n => (sv s (firstn (N.to_nat n) l), OUnit, rev (skipn (N.to_nat n) l))
  | VResize n x =>
    if N.ltb (svcap s) n then (s, OErr EExceedsCapacity, [x])
    else (sv s (firstn (N.to_nat n) l ++ repeat x (N.to_nat n - length l)), OUnit,
          rev (skipn (N.to_nat n) l) ++ [x])
  | VExtend l2 =>
    if N.ltb (svcap s) (lenN l + lenN l2) then (s, OErr EExceedsCapacity, [])
    else (sv s (l ++ l2), OUnit, [])
  | VLen => (s, ON (lenN l), [])
  | VSlice => (s, OL l, [])
  end.
