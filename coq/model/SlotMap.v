(* Concrete model of iceoryx2-bb/container/src/slotmap.rs (MetaSlotMap), field for field, as
   the code is NOW (with the fix: commits 1f4a6fa, b46c587, c891c8c key >= capacity checks;
   426f98f claim_index advances the head; 801b953 acquire_next_free_index clears `next`;
   6ffc44e a zero-capacity map starts with head = INVALID):
     idx_to_data            : MetaVec<usize>          -> i2d   (INVALID = usize::MAX is None)
     idx_to_data_free_list  : MetaVec<FreeListEntry>  -> flist (previous, next; INVALID is None)
     data                   : MetaVec<Option<T>>      -> sdata
     data_next_free_index   : MetaQueue<usize>        -> dnf   (model/RingQueue.v)
     idx_to_data_free_list_head                       -> fhead
     len                                              -> smlen
   usize::MAX cannot be a valid index (a MetaVec of usize::MAX elements cannot be allocated), so
   coding INVALID as None loses nothing.  MetaVec indexing goes through Deref to a slice of
   `len` elements (= capacity after initialize_data_structures): out of range is a Panic.
   Values are numbers; each operation also yields the drop log of the call. *)
From V Require Import model.Base model.Obs model.RingQueue.
Open Scope N_scope.

Record fle := { fprev : option N; fnext : option N }.

Record slotmap := {
  i2d : list (option N);
  flist : list fle;
  sdata : list (option N);
  dnf : rq;
  fhead : option N;
  smlen : N;
  smcap : N }.

Definition bind {A B} (r : res A) (f : A -> res B) : res B :=
  match r with Panic => Panic | Val a => f a end.
Notation "x <- r ;; k" := (bind r (fun x => k)) (at level 61, r at next level, right associativity).

(* v[i] and v[i] = x on a MetaVec *)
Definition geti {A} (l : list A) (i : N) : res A :=
  match nth_error l (N.to_nat i) with Some x => Val x | None => Panic end.
Definition seti {A} (l : list A) (i : N) (x : A) : res (list A) :=
  if N.ltb i (lenN l) then Val (updN l i x) else Panic.

(* SlotMap::new / RelocatableSlotMap::init: head = if capacity == 0 { INVALID } else { 0 }
   (fix: 6ffc44e), then
   initialize_data_structures pushes, for n in 0..capacity: INVALID, None, n into the queue,
   FreeListEntry { previous: n-1 or INVALID, next: n+1 or INVALID }.  The queue after pushing
   0..capacity-1 into an empty one: start = len = capacity, data[n] = n. *)
Definition sm_new (c : N) : slotmap :=
  let n := N.to_nat c in
  {| i2d := repeat None n;
     flist := map (fun k => {| fprev := if Nat.eqb k 0 then None else Some (N.of_nat (k - 1));
                               fnext := if Nat.ltb (S k) n then Some (N.of_nat (S k)) else None |}) (seq 0 n);
     sdata := repeat None n;
     dnf := {| start := c; len := c; cap := c; data := map N.of_nat (seq 0 n) |};
     fhead := if N.eqb c 0 then None else Some 0;
     smlen := 0;
     smcap := c |}.

Definition with_fl (m : slotmap) (f : list fle) (h : option N) : slotmap :=
  {| i2d := i2d m; flist := f; sdata := sdata m; dnf := dnf m; fhead := h; smlen := smlen m; smcap := smcap m |}.

(* acquire_next_free_index *)
Definition sm_acquire (m : slotmap) : res (slotmap * option N) :=
  match fhead m with
  | None => Val (m, None)
  | Some fi =>
    e <- geti (flist m) fi ;;
    let next := fnext e in
    f1 <- match next with
          | Some nx => en <- geti (flist m) nx ;; seti (flist m) nx {| fprev := None; fnext := fnext en |}
          | None => Val (flist m)
          end ;;
    e2 <- geti f1 fi ;;
    f2 <- seti f1 fi {| fprev := fprev e2; fnext := None |} ;;
    Val (with_fl m f2 next, Some fi)
  end.

(* claim_index *)
Definition sm_claim (m : slotmap) (idx : N) : res slotmap :=
  if N.leb (smcap m) idx then Val m else
  entry <- geti (flist m) idx ;;
  let h := match fhead m with
           | Some hd => if N.eqb hd idx then fnext entry else fhead m
           | None => fhead m
           end in
  f1 <- match fprev entry with
        | Some p => ep <- geti (flist m) p ;; seti (flist m) p {| fprev := fprev ep; fnext := fnext entry |}
        | None => Val (flist m)
        end ;;
  f2 <- match fnext entry with
        | Some nx => en <- geti f1 nx ;; seti f1 nx {| fprev := fprev entry; fnext := fnext en |}
        | None => Val f1
        end ;;
  (* [idx].next = INVALID; [idx].previous = INVALID *)
  f3 <- seti f2 idx {| fprev := None; fnext := None |} ;;
  Val (with_fl m f3 h).

(* release_free_index *)
Definition sm_release (m : slotmap) (idx : N) : res slotmap :=
  f1 <- match fhead m with
        | Some hd => eh <- geti (flist m) hd ;; seti (flist m) hd {| fprev := Some idx; fnext := fnext eh |}
        | None => Val (flist m)
        end ;;
  f2 <- seti f1 idx {| fprev := None; fnext := fhead m |} ;;
  Val (with_fl m f2 (Some idx)).

Definition olist (o : option N) : list N := match o with Some x => [x] | None => [] end.

(* store_value: returns (map, stored?, drop log) *)
Definition sm_store (m : slotmap) (key v : N) : res (slotmap * bool * list N) :=
  if N.leb (smcap m) key then Val (m, false, [v]) else
  di <- geti (i2d m) key ;;
  match di with
  | Some d =>
    old <- geti (sdata m) d ;;
    sd <- seti (sdata m) d (Some v) ;;
    Val ({| i2d := i2d m; flist := flist m; sdata := sd; dnf := dnf m; fhead := fhead m;
            smlen := smlen m; smcap := smcap m |}, true, olist old)
  | None =>
    match rq_pop (dnf m) with
    | Panic => Panic
    | Val (_, None) => Panic       (* .expect("... there must be always a free index available.") *)
    | Val (q', Some n) =>
      i2 <- seti (i2d m) key (Some n) ;;
      old <- geti (sdata m) n ;;
      sd <- seti (sdata m) n (Some v) ;;
      Val ({| i2d := i2; flist := flist m; sdata := sd; dnf := q'; fhead := fhead m;
              smlen := smlen m + 1; smcap := smcap m |}, true, olist old)
    end
  end.

(* insert_impl *)
Definition sm_insert (m : slotmap) (v : N) : res (slotmap * obs * list N) :=
  r <- sm_acquire m ;;
  match r with
  | (m1, None) => Val (m1, OO None, [v])
  | (m1, Some key) =>
    r2 <- sm_store m1 key v ;;
    let '(m2, _, d) := r2 in Val (m2, OO (Some key), d)
  end.

(* insert_at_impl *)
Definition sm_insert_at (m : slotmap) (key v : N) : res (slotmap * obs * list N) :=
  m1 <- sm_claim m key ;;
  r2 <- sm_store m1 key v ;;
  let '(m2, b, d) := r2 in Val (m2, OB b, d).

(* remove_impl *)
Definition sm_remove (m : slotmap) (key : N) : res (slotmap * obs * list N) :=
  if N.leb (lenN (i2d m)) key then Val (m, OO None, []) else
  di <- geti (i2d m) key ;;
  match di with
  | None => Val (m, OO None, [])
  | Some d =>
    ret <- geti (sdata m) d ;;
    sd <- seti (sdata m) d None ;;
    match rq_push (dnf m) d with
    | Panic => Panic
    | Val (_, false) => Panic        (* debug_assert!(push_result) *)
    | Val (q', true) =>
      let m1 := {| i2d := i2d m; flist := flist m; sdata := sd; dnf := q'; fhead := fhead m;
                   smlen := smlen m; smcap := smcap m |} in
      m2 <- sm_release m1 key ;;
      i2 <- seti (i2d m2) key None ;;
      Val ({| i2d := i2; flist := flist m2; sdata := sdata m2; dnf := dnf m2; fhead := fhead m2;
              smlen := smlen m2 - 1; smcap := smcap m2 |}, OO ret, [])
    end
  end.

(* get_impl / get_mut_impl: fix: c891c8c, key >= idx_to_data.len() -> None *)
Definition sm_get (m : slotmap) (key : N) : res obs :=
  if N.leb (lenN (i2d m)) key then Val (OO None) else
  di <- geti (i2d m) key ;;
  match di with
  | None => Val (OO None)
  | Some n => v <- geti (sdata m) n ;; match v with Some x => Val (OO (Some x)) | None => Panic end
  end.

(* contains_impl: fix: c891c8c, key < idx_to_data.len() && .. *)
Definition sm_contains (m : slotmap) (key : N) : res obs :=
  if N.leb (lenN (i2d m)) key then Val (OB false) else
  di <- geti (i2d m) key ;; Val (OB (match di with Some _ => true | None => false end)).

(* Iter: next_available_key_after, keys ascending; the listing is flattened [k1; v1; k2; v2; ..] *)
Fixpoint sm_iter_from (m : slotmap) (l : list (option N)) (k : N) : res (list N) :=
  match l with
  | [] => Val []
  | None :: t => sm_iter_from m t (k + 1)
  | Some d :: t =>
    v <- geti (sdata m) d ;;
    match v with
    | None => Panic
    | Some x => r <- sm_iter_from m t (k + 1) ;; Val (k :: x :: r)
    end
  end.

(* Drop: the fields drop in declaration order; only `data` owns values, MetaVec::drop pops from
   the back: values in reverse data-slot order *)
Definition sm_drop_log (m : slotmap) : list N := rev (flat_map olist (sdata m)).

Inductive mop :=
| MInsert (v : N) | MInsertAt (k v : N) | MRemove (k : N) | MGet (k : N) | MContains (k : N)
| MNextFree | MIter | MLen | MDrop.

Definition unres3 (m : slotmap) (r : res (slotmap * obs * list N)) : slotmap * obs * list N :=
  match r with Val x => x | Panic => (m, OP, []) end.
Definition unres1 (m : slotmap) (r : res obs) : slotmap * obs * list N :=
  match r with Val o => (m, o, []) | Panic => (m, OP, []) end.

Definition sm_step (m : slotmap) (o : mop) : slotmap * obs * list N :=
  match o with
  | MInsert v => unres3 m (sm_insert m v)
  | MInsertAt k v => unres3 m (sm_insert_at m k v)
  | MRemove k => unres3 m (sm_remove m k)
  | MGet k => unres1 m (sm_get m k)
  | MContains k => unres1 m (sm_contains m k)
  | MNextFree => (m, OO (fhead m), [])
  | MIter => unres1 m (l <- sm_iter_from m (i2d m) 0 ;; Val (OL l))
  | MLen => (m, ON (smlen m), [])
  | MDrop => (m, OUnit, sm_drop_log m)
  end.

(* ---- the reference: a finite map key -> value over the keys 0..capacity-1 (as a list of
   options indexed by the key) together with the order in which free keys are handed out
   (`insert` returns the key that the free list yields: initially 0,1,2,..; a removed key is
   reused first).  A key outside 0..capacity-1 is simply not contained. *)
Record smap := { mcap : N; mvals : list (option N); mfree : list N }.
Definition smap_new (c : N) : smap :=
  {| mcap := c; mvals := repeat None (N.to_nat c); mfree := map N.of_nat (seq 0 (N.to_nat c)) |}.

Definition mget (s : smap) (k : N) : option N := nth (N.to_nat k) (mvals s) None.
Definition is_some {A} (o : option A) : bool := match o with Some _ => true | None => false end.
Definition remove_key (k : N) (l : list N) : list N := filter (fun x => negb (N.eqb x k)) l.

Fixpoint listing (l : list (option N)) (k : N) : list N :=
  match l with
  | [] => []
  | None :: t => listing t (k + 1)
  | Some x :: t => k :: x :: listing t (k + 1)
  end.

Definition smap_step (s : smap) (o : mop) : smap * obs * list N :=
  match o with
  | MInsert v =>
    match mfree s with
    | [] => (s, OO None, [v])
    | k :: r => ({| mcap := mcap s; mvals := updN (mvals s) k (Some v); mfree := r |}, OO (Some k), [])
    end
  | MInsertAt k v =>
    if N.leb (mcap s) k then (s, OB false, [v]) else
    ({| mcap := mcap s; mvals := updN (mvals s) k (Some v); mfree := remove_key k (mfree s) |},
     OB true, olist (mget s k))
  | MRemove k =>
    match (if N.ltb k (mcap s) then mget s k else None) with
    | Some x => ({| mcap := mcap s; mvals := updN (mvals s) k None; mfree := k :: mfree s |}, OO (Some x), [])
    | None => (s, OO None, [])
    end
  | MGet k =>
    if N.ltb k (mcap s) then (s, OO (mget s k), []) else (s, OO None, [])
  | MContains k =>
    if N.ltb k (mcap s) then (s, OB (is_some (mget s k)), []) else (s, OB false, [])
  | MNextFree => (s, OO (hd_error (mfree s)), [])
  | MIter => (s, OL (listing (mvals s) 0), [])
  | MLen => (s, ON (lenN (filter is_some (mvals s))), [])
  | MDrop => (s, OUnit, flat_map olist (mvals s))   (* order not fixed by the reference: compared as a multiset *)
  end.
