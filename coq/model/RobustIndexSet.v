(* Step model of iceoryx2-bb/lock-free/src/mpmc/robust_unique_index_set.rs
   (RobustUniqueIndexSet / StaticRobustUniqueIndexSet): one AtomicU64 owner cell per index
   (OwnerId::EMPTY = u64::MAX) and a generation counter (u64::MAX = locked).

     acquire(owner):
        cur := generation_counter.load(Acquire)
        loop { if cur == MAX return Err(IsLocked)
               for n in 0..capacity { CAS cell[n] EMPTY -> owner (Relaxed/Relaxed):
                                        Ok  => if increment_generation_counter(Release) == MAX return Err(IsLocked)
                                               return Ok(n)
                                        Err => continue }
               CAS generation_counter cur -> cur (AcqRel/SeqCst): Ok => return Err(OutOfIndices)
                                                                  Err(v) => cur := v }
     release(index, owner, mode):
        CAS cell[index] owner -> EMPTY (Relaxed/Relaxed): Ok => increment_generation_counter(Release)
                                                          Err => return Err(IndexIsNotOwnedByProvidedOwner)
        if mode == LockIfLastIndex { Ok(lock()) } else { Ok(Unlocked) }
     lock():
        if is_locked() return Locked
        loop { s := borrowed_indices_and_generation_counter()
               if s.borrowed == 0 { CAS generation_counter s.gen -> MAX (Relaxed/Relaxed): Ok => return Locked
                                                                                          Err => continue }
               else return Unlocked }
     increment_generation_counter(ord):
        c := generation_counter.load(Relaxed)
        loop { if c == MAX return MAX
               CAS generation_counter c -> c + 1 (ord/Relaxed): Ok => return c + 1;  Err(v) => c := v }
     borrowed_indices_and_generation_counter():
        loop { init := generation_counter.load(Acquire); if init == MAX return {gen: MAX, borrowed: 0}
               count := #{ n | cell[n].load(Relaxed) != EMPTY }
               new := increment_generation_counter(Release)
               if init + 1 == new return {gen: new, borrowed: count} }
     borrowed_indices() = borrowed_indices_and_generation_counter().borrowed
     is_locked() = generation_counter.load(Relaxed) == MAX
     recover(mode, predicate, on_success):
        if is_locked() return Locked
        for n in 0..capacity { v := cell[n].load(Relaxed); if v == EMPTY continue
                               if predicate(v, n) && CAS cell[n] v -> EMPTY (Relaxed/Relaxed) ok {
                                   on_success(v, n)
                                   if increment_generation_counter(Release) == MAX return Locked
                                   if mode == LockIfLastIndex { lock(); } } }
        return if is_locked() { Locked } else { Unlocked }

   cell_ptr.as_ptr() (RelocatablePointer) loads its `distance` AtomicIsize (Relaxed): once at the
   start of acquire (before the generation load), of release, of
   borrowed_indices_and_generation_counter (every call), and of recover (after its is_locked()).

   One step = one atomic access.  Nested calls are a continuation in the pc.  The harness calls
   recover with predicate = (owner == d) and collects the recovered indices in a bit mask. *)
From V Require Import model.Base model.Conc model.Events model.UniqueIndexSet.
Open Scope N_scope.

Definition MAX64 : N := 18446744073709551615.
Definition EMPTY : N := MAX64.

Definition rc_recover (locked : bool) (mask : N) : N := rc 5 (2 * mask + bool_code locked).

Inductive rop :=
| RAcq (d : N)                       (* acquire(OwnerId d) *)
| RRel (m : rmode) (front : bool)    (* release(i, d, m) of a held (i, d): oldest / most recent; skipped when nothing held *)
| RBorrowed                          (* borrowed_indices() *)
| RIsLocked
| RRecover (d : N) (m : rmode).      (* recover(m, |o, _| o == d, collect) *)

(* who called lock() *)
Inductive klock := KLRel | KLRec (n d : N) (m : rmode) (mask : N).
(* who called borrowed_indices_and_generation_counter() *)
Inductive kscan := KBorrowed | KLock (kl : klock).
(* who called increment_generation_counter() *)
Inductive kinc :=
| KAcq (d n : N)
| KRel (i : N) (m : rmode)              (* i: ghost, the cell this release has cleared *)
| KRec (n d : N) (m : rmode) (mask : N)
| KScan (init count : N) (k : kscan).

Inductive rpc :=
| RIdle
| AStart (d : N)                          (* acquire: distance loaded, generation load next *)
| RelCell (i d : N) (m : rmode)           (* release: distance loaded, cell CAS next *)
| ScanDist (k : kscan)                    (* borrowed_indices_and_generation_counter: distance load next *)
| RecDist (d : N) (m : rmode)             (* recover: distance load next *)
| AScan (d cur n : N)                     (* acquire: CAS cell n next *)
| AFinal (d cur : N)                      (* acquire: validating CAS cur -> cur next *)
| IncLoad (k : kinc)
| IncCas (c : N) (k : kinc)
| LockCheck (kl : klock)                  (* lock: is_locked() load next *)
| ScanStart (k : kscan)                   (* load generation counter (Acquire) next *)
| ScanCell (init n count : N) (k : kscan) (* load cell n next *)
| LockCas (gn : N) (kl : klock)
| RecLoad (n d : N) (m : rmode) (mask : N)
| RecCas (n d : N) (m : rmode) (mask : N)
| RecEnd (d mask : N).                    (* d: ghost, the owner this recover is about *)

Record rlst := { rprog : list rop; rpc_of : rpc; rheld : list (N * N);
                 rstamp : N (* ghost: value of `acqs` when the running recover call started *) }.

Record rgst := {
  rcap : N; rdist : N; cells : list N; gen : N;
  (* ghost *)
  rholder : list (option Datatypes.nat);  (* cell -> thread whose acquire CAS populated it *)
  rdone : list bool;                      (* that acquire has incremented the generation counter (returned Ok) *)
  cleared_at : list (option N);           (* cell -> value of the generation counter when a release/recover last cleared it *)
  recovered : list N;                     (* owner ids some recover CAS has succeeded for *)
  acqs : N;                               (* number of successful acquire cell CASes so far *)
  pop_stamp : list N                      (* cell -> value of `acqs` right after the CAS that populated it last *)
}.

Definition B_GEN : N := 0.
Definition B_CELL : N := 1.
Definition B_RDIST : N := 2.
Definition dist_ev (dist : N) (site : N) : ev := EAcc site B_RDIST 0 KLoad Relaxed Relaxed dist 0 true.

Definition set_r (l : rlst) (p : list rop) (c : rpc) (h : list (N * N)) : rlst :=
  {| rprog := p; rpc_of := c; rheld := h; rstamp := rstamp l |}.

Definition set_cell (g : rgst) (i v : N) (ho : option Datatypes.nat) (ca : option N) (rec : list N) : rgst :=
  {| rcap := rcap g; rdist := rdist g; cells := updN (cells g) i v; gen := gen g;
     rholder := updN (rholder g) i ho; rdone := updN (rdone g) i false; cleared_at := updN (cleared_at g) i ca; recovered := rec;
     acqs := acqs g; pop_stamp := pop_stamp g |}.
(* ghost bookkeeping of a successful acquire CAS on cell i *)
Definition set_pop (g : rgst) (i : N) : rgst :=
  {| rcap := rcap g; rdist := rdist g; cells := cells g; gen := gen g; rholder := rholder g; rdone := rdone g;
     cleared_at := cleared_at g; recovered := recovered g; acqs := acqs g + 1; pop_stamp := updN (pop_stamp g) i (acqs g + 1) |}.
Definition set_gen (g : rgst) (v : N) (dn : list bool) : rgst :=
  {| rcap := rcap g; rdist := rdist g; cells := cells g; gen := v; rholder := rholder g; rdone := dn; cleared_at := cleared_at g; recovered := recovered g;
     acqs := acqs g; pop_stamp := pop_stamp g |}.

Definition acq_next (g : rgst) (d cur n : N) : rpc := if N.ltb n (rcap g) then AScan d cur n else AFinal d cur.
Definition rec_next (g : rgst) (n d : N) (m : rmode) (mask : N) : rpc :=
  if N.ltb n (rcap g) then RecLoad n d m mask else RecEnd d mask.
Definition scan_next (g : rgst) (init n count : N) (k : kscan) : rpc :=
  if N.ltb n (rcap g) then ScanCell init n count k else IncLoad (KScan init count k).

(* thread-local continuations: next pc, events, held list *)
Definition k_lock_ret (g : rgst) (h : list (N * N)) (locked : bool) (kl : klock) : rpc * list ev * list (N * N) :=
  match kl with
  | KLRel => (RIdle, [ERet (if locked then RC_LOCKED else RC_UNLOCKED)], h)
  | KLRec n d m mask => (rec_next g (n + 1) d m mask, [], h)
  end.
Definition k_scan_ret (g : rgst) (h : list (N * N)) (gn count : N) (k : kscan) : rpc * list ev * list (N * N) :=
  match k with
  | KBorrowed => (RIdle, [ERet (rc_borrowed count)], h)
  | KLock kl => if N.eqb count 0 then (LockCas gn kl, [], h) else k_lock_ret g h false kl
  end.
Definition k_inc_ret (g : rgst) (h : list (N * N)) (r : N) (k : kinc) : rpc * list ev * list (N * N) :=
  match k with
  | KAcq d n => if N.eqb r MAX64 then (RIdle, [ERet RC_IS_LOCKED], h) else (RIdle, [ERet (rc_ok n)], h ++ [(n, d)])
  | KRel _ m => match m with MLockIfLast => (LockCheck KLRel, [], h) | MDefault => (RIdle, [ERet RC_UNLOCKED], h) end
  | KRec n d m mask =>
    if N.eqb r MAX64 then (RIdle, [ERet (rc_recover true mask)], h)
    else match m with MLockIfLast => (LockCheck (KLRec n d m mask), [], h) | MDefault => (rec_next g (n + 1) d m mask, [], h) end
  | KScan init count k => if N.eqb (init + 1) r then k_scan_ret g h r count k else (ScanStart k, [], h)
  end.

(* ghost bookkeeping when an increment_generation_counter call ends (result r): an acquire that
   still holds its cell and got a real generation value has completed *)
Definition inc_done_ghost (g : rgst) (t : nat) (r : N) (k : kinc) : list bool :=
  match k with
  | KAcq d n =>
    if N.eqb r MAX64 then rdone g
    else match nthN (rholder g) n None with
         | Some t' => if Nat.eqb t t' then updN (rdone g) n true else rdone g
         | None => rdone g
         end
  | _ => rdone g
  end.

Definition fin (g : rgst) (l : rlst) (p : list rop) (x : rpc * list ev * list (N * N)) (e : ev) : option (rgst * rlst * list ev) :=
  let '(pc', evs, h') := x in Some (g, set_r l p pc' h', e :: evs).

(* the load that opens borrowed_indices_and_generation_counter's loop *)
Definition scan_start (g : rgst) (l : rlst) (p : list rop) (k : kscan) : option (rgst * rlst * list ev) :=
  let e := EAcc 82 B_GEN 0 KLoad Acquire Acquire (gen g) 0 true in
  if N.eqb (gen g) MAX64 then fin g l p (k_scan_ret g (rheld l) MAX64 0 k) e
  else Some (g, set_r l p (scan_next g (gen g) 0 0 k) (rheld l), [e]).

Definition rstep (t : nat) (g : rgst) (l : rlst) : option (rgst * rlst * list ev) :=
  match rpc_of l with
  | RIdle =>
    match rprog l with
    | [] => None
    | RAcq d :: p =>
      (* OwnerId::new refuses u64::MAX: such an op never reaches acquire *)
      if N.eqb d EMPTY then Some (g, set_r l p RIdle (rheld l), [])
      else Some (g, set_r l p (AStart d) (rheld l), [dist_ev (rdist g) 53])
    | RRel m front :: p =>
      match (if front then rheld l else rev (rheld l)) with
      | [] => Some (g, set_r l p RIdle (rheld l), [])
      | (i, d) :: _ =>
        let h' := if front then tl (rheld l) else removelast (rheld l) in
        Some (g, set_r l p (RelCell i d m) h', [dist_ev (rdist g) 61])
      end
    | RBorrowed :: p => Some (g, set_r l p (ScanStart KBorrowed) (rheld l), [dist_ev (rdist g) 86])
    | RIsLocked :: p =>
      Some (g, set_r l p RIdle (rheld l),
            [EAcc 80 B_GEN 0 KLoad Relaxed Relaxed (gen g) 0 true; ERet (rc_is_locked (N.eqb (gen g) MAX64))])
    | RRecover d m :: p =>
      let e := EAcc 70 B_GEN 0 KLoad Relaxed Relaxed (gen g) 0 true in
      if N.eqb (gen g) MAX64 then Some (g, set_r l p RIdle (rheld l), [e; ERet (rc_recover true 0)])
      else Some (g, {| rprog := p; rpc_of := RecDist d m; rheld := rheld l; rstamp := acqs g |}, [e])
    end
  | AStart d =>
    let e := EAcc 50 B_GEN 0 KLoad Acquire Acquire (gen g) 0 true in
    if N.eqb (gen g) MAX64 then Some (g, set_r l (rprog l) RIdle (rheld l), [e; ERet RC_IS_LOCKED])
    else Some (g, set_r l (rprog l) (acq_next g d (gen g) 0) (rheld l), [e])
  | RelCell i d m =>
    let v := nthN (cells g) i 0 in
    if N.eqb v d
    then Some (set_cell g i EMPTY None (Some (gen g)) (recovered g),
               set_r l (rprog l) (IncLoad (KRel i m)) (rheld l),
               [EAcc 60 B_CELL i KCas Relaxed Relaxed v EMPTY true])
    else Some (g, set_r l (rprog l) RIdle (rheld l),
               [EAcc 60 B_CELL i KCas Relaxed Relaxed v EMPTY false; ERet RC_NOT_OWNED])
  | ScanDist k => Some (g, set_r l (rprog l) (ScanStart k) (rheld l), [dist_ev (rdist g) 85])
  | RecDist d m => Some (g, set_r l (rprog l) (rec_next g 0 d m 0) (rheld l), [dist_ev (rdist g) 74])
  | AScan d cur n =>
    let v := nthN (cells g) n 0 in
    if N.eqb v EMPTY
    then Some (set_pop (set_cell g n d (Some t) (nthN (cleared_at g) n None) (recovered g)) n,
               set_r l (rprog l) (IncLoad (KAcq d n)) (rheld l),
               [EAcc 51 B_CELL n KCas Relaxed Relaxed v d true])
    else Some (g, set_r l (rprog l) (acq_next g d cur (n + 1)) (rheld l),
               [EAcc 51 B_CELL n KCas Relaxed Relaxed v d false])
  | AFinal d cur =>
    if N.eqb (gen g) cur
    then Some (g, set_r l (rprog l) RIdle (rheld l),
               [EAcc 52 B_GEN 0 KCas AcqRel SeqCst cur cur true; ERet RC_OUT_OF_INDICES])
    else let e := EAcc 52 B_GEN 0 KCas AcqRel SeqCst (gen g) cur false in
         if N.eqb (gen g) MAX64 then Some (g, set_r l (rprog l) RIdle (rheld l), [e; ERet RC_IS_LOCKED])
         else Some (g, set_r l (rprog l) (acq_next g d (gen g) 0) (rheld l), [e])
  | IncLoad k =>
    let e := EAcc 90 B_GEN 0 KLoad Relaxed Relaxed (gen g) 0 true in
    if N.eqb (gen g) MAX64
    then fin g l (rprog l) (k_inc_ret g (rheld l) MAX64 k) e
    else Some (g, set_r l (rprog l) (IncCas (gen g) k) (rheld l), [e])
  | IncCas c k =>
    if N.eqb (gen g) c
    then fin (set_gen g (c + 1) (inc_done_ghost g t (c + 1) k)) l (rprog l) (k_inc_ret g (rheld l) (c + 1) k)
             (EAcc 91 B_GEN 0 KCas Release Relaxed c (c + 1) true)
    else let e := EAcc 91 B_GEN 0 KCas Release Relaxed (gen g) (c + 1) false in
         if N.eqb (gen g) MAX64
         then fin g l (rprog l) (k_inc_ret g (rheld l) MAX64 k) e
         else Some (g, set_r l (rprog l) (IncCas (gen g) k) (rheld l), [e])
  | LockCheck kl =>
    let e := EAcc 81 B_GEN 0 KLoad Relaxed Relaxed (gen g) 0 true in
    if N.eqb (gen g) MAX64 then fin g l (rprog l) (k_lock_ret g (rheld l) true kl) e
    else Some (g, set_r l (rprog l) (ScanDist (KLock kl)) (rheld l), [e])
  | ScanStart k => scan_start g l (rprog l) k
  | ScanCell init n count k =>
    let v := nthN (cells g) n 0 in
    Some (g, set_r l (rprog l) (scan_next g init (n + 1) (if N.eqb v EMPTY then count else count + 1) k) (rheld l),
          [EAcc 83 B_CELL n KLoad Relaxed Relaxed v 0 true])
  | LockCas gn kl =>
    if N.eqb (gen g) gn
    then fin (set_gen g MAX64 (rdone g)) l (rprog l) (k_lock_ret g (rheld l) true kl)
             (EAcc 84 B_GEN 0 KCas Relaxed Relaxed gn MAX64 true)
    else Some (g, set_r l (rprog l) (ScanDist (KLock kl)) (rheld l),
               [EAcc 84 B_GEN 0 KCas Relaxed Relaxed (gen g) MAX64 false])
  | RecLoad n d m mask =>
    let v := nthN (cells g) n 0 in
    let e := EAcc 71 B_CELL n KLoad Relaxed Relaxed v 0 true in
    if N.eqb v EMPTY then Some (g, set_r l (rprog l) (rec_next g (n + 1) d m mask) (rheld l), [e])
    else if N.eqb v d then Some (g, set_r l (rprog l) (RecCas n d m mask) (rheld l), [e])
    else Some (g, set_r l (rprog l) (rec_next g (n + 1) d m mask) (rheld l), [e])
  | RecCas n d m mask =>
    let v := nthN (cells g) n 0 in
    if N.eqb v d
    then Some (set_cell g n EMPTY None (Some (gen g)) (d :: recovered g),
               set_r l (rprog l) (IncLoad (KRec n d m (mask + 2 ^ n))) (rheld l),
               [EAcc 72 B_CELL n KCas Relaxed Relaxed v EMPTY true])
    else Some (g, set_r l (rprog l) (rec_next g (n + 1) d m mask) (rheld l),
               [EAcc 72 B_CELL n KCas Relaxed Relaxed v EMPTY false])
  | RecEnd _ mask =>
    Some (g, set_r l (rprog l) RIdle (rheld l),
          [EAcc 73 B_GEN 0 KLoad Relaxed Relaxed (gen g) 0 true; ERet (rc_recover (N.eqb (gen g) MAX64) mask)])
  end.

Definition rg_init (c dist : N) : rgst :=
  {| rcap := c; rdist := dist; cells := repeat EMPTY (N.to_nat c); gen := 0;
     rholder := repeat None (N.to_nat c); rdone := repeat false (N.to_nat c);
     cleared_at := repeat None (N.to_nat c); recovered := []; acqs := 0; pop_stamp := repeat 0 (N.to_nat c) |}.
Definition rl_init (p : list rop) : rlst := {| rprog := p; rpc_of := RIdle; rheld := []; rstamp := 0 |}.
Definition rinit (c dist : N) (progs : nat -> list rop) : cfg rgst rlst := (rg_init c dist, fun t => rl_init (progs t)).
