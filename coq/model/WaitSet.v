(* Concrete sequential model of iceoryx2/src/waitset.rs (WaitSet, WaitSetGuard,
   WaitSetAttachmentId) on top of
     iceoryx2-cal/src/reactor/{epoll.rs,posix_select.rs}   (reactor: set of attached descriptors)
     iceoryx2-bb/posix/src/file_descriptor_set.rs          (add_impl / remove / wait)
     iceoryx2-bb/linux/src/epoll.rs                        (EpollAttachmentBuilder::attach, wait_impl)
     iceoryx2-bb/posix/src/deadline_queue.rs               (DeadlineQueue)
   field for field, branch for branch, in the code's order of side effects, including what a
   failing attach rolls back (the RAII guards that go out of scope) and what it does not
   (DeadlineQueue::id_count, an allocation cursor).

   Descriptors are abstract numbers supplied by the history (the harness reports the index
   of the listener that owns the descriptor; re-attaching the same listener = the same
   descriptor value again, which is all the wait set ever sees of an object).
   DeadlineQueueIndex values are allocated as the code does: `id_count`, a counter that only
   grows (add_deadline_interval) -- indices are NOT reused.

   Time is abstract: a deadline-queue entry is "expired" at every processing call iff its
   period is <= 1 ns (the harness only uses 1 ns = always expired, and 1 h = never expired
   within a run); Attachment::start_time / previous_iteration are not modelled, so
   DeadlineQueue::reset is a no-op on the model state (the model still performs the map
   lookup that decides *which* index is reset and reports it, see `proc_resets`).

   The second half of the file is the reference specification the property is about. *)
From V Require Import model.Base.

(* ---------- identifiers ---------- *)
(* AttachmentIdType (waitset.rs): Tick(ws, idx) | Deadline(ws, fd, idx) | Notification(ws, fd);
   the wait-set address component is constant for one wait set and dropped.
   WaitSetAttachmentId::from_guard maps GuardType::{Tick,Deadline,Notification} to exactly
   these, so one type serves for guards and for callback arguments. *)
Inductive aid := ATick (i : N) | ADeadline (f : N) (i : N) | ANotification (f : N).

Definition aid_eqb (a b : aid) : bool :=
  match a, b with
  | ATick i, ATick j => N.eqb i j
  | ADeadline f i, ADeadline g j => N.eqb f g && N.eqb i j
  | ANotification f, ANotification g => N.eqb f g
  | _, _ => false
  end.

(* WaitSetAttachmentId::has_event_from(self, other_guard) *)
Definition has_event_from (self other : aid) : bool :=
  match other with
  | ADeadline other_fd _ =>
      match self with
      | ANotification fd => N.eqb fd other_fd
      | _ => false
      end
  | _ => aid_eqb self other
  end.

(* WaitSetAttachmentId::has_missed_deadline(self, other_guard) *)
Definition has_missed_deadline (self other : aid) : bool :=
  match self with
  | ADeadline _ _ => aid_eqb self other
  | _ => false
  end.

(* ---------- BTreeMap<N,N> as an association list (at most one pair per key) ---------- *)
Definition amap := list (N * N).
Definition m_remove (k : N) (m : amap) : amap := filter (fun kv => negb (N.eqb (fst kv) k)) m.
Definition m_insert (k v : N) (m : amap) : amap := (k, v) :: m_remove k m.
Fixpoint m_get (k : N) (m : amap) : option N :=
  match m with
  | [] => None
  | (k', v) :: t => if N.eqb k' k then Some v else m_get k t
  end.

(* ---------- the wait set ---------- *)
(* the order in which reactor.attach() performs its two checks:
   posix_select (FileDescriptorSet::add_impl): `len >= capacity` first, then `contains`;
   epoll (EPOLL_CTL_ADD): EEXIST is decided before the watch limit (ENOSPC). *)
Inductive check_order := CapFirst | DupFirst.

Record dentry := { de_idx : N; de_period : N }.     (* deadline_queue.rs Attachment {index, period} *)

Record ws := {
  rcap    : N;            (* reactor.capacity() = WaitSet::capacity() *)
  rmaxev  : N;            (* events one reactor wait can return (Epoll::max_wait_events() = 512; select: all) *)
  rorder  : check_order;
  reactor : list N;       (* attached descriptors, attach order (FileDescriptorSet.file_descriptors) *)
  dq      : list dentry;  (* DeadlineQueue.attachments (Vec order) *)
  id_count: N;            (* DeadlineQueue.id_count *)
  a2d     : amap;         (* attachment_to_deadline : fd  -> idx *)
  d2a     : amap;         (* deadline_to_attachment : idx -> fd  *)
  counter : N             (* attachment_counter *)
}.

Definition set_reactor (w : ws) (r : list N) : ws :=
  {| rcap := rcap w; rmaxev := rmaxev w; rorder := rorder w; reactor := r; dq := dq w;
     id_count := id_count w; a2d := a2d w; d2a := d2a w; counter := counter w |}.
Definition set_dq (w : ws) (q : list dentry) (c : N) : ws :=
  {| rcap := rcap w; rmaxev := rmaxev w; rorder := rorder w; reactor := reactor w; dq := q;
     id_count := c; a2d := a2d w; d2a := d2a w; counter := counter w |}.
Definition set_maps (w : ws) (m1 m2 : amap) : ws :=
  {| rcap := rcap w; rmaxev := rmaxev w; rorder := rorder w; reactor := reactor w; dq := dq w;
     id_count := id_count w; a2d := m1; d2a := m2; counter := counter w |}.
Definition set_counter (w : ws) (c : N) : ws :=
  {| rcap := rcap w; rmaxev := rmaxev w; rorder := rorder w; reactor := reactor w; dq := dq w;
     id_count := id_count w; a2d := a2d w; d2a := d2a w; counter := c |}.

Definition ws_new (cap maxev : N) (o : check_order) : ws :=
  {| rcap := cap; rmaxev := maxev; rorder := o; reactor := []; dq := []; id_count := 0;
     a2d := []; d2a := []; counter := 0 |}.

Definition memN (x : N) (l : list N) : bool := existsb (N.eqb x) l.
Definition removeN (x : N) (l : list N) : list N := filter (fun y => negb (N.eqb y x)) l.

(* WaitSetAttachmentError *)
Inductive aerr := EInsufficientCapacity | EAlreadyAttached | EInternalError | EInsufficientResources.
(* ReactorAttachError (the two that the modelled reactors produce without OS failure) *)
Inductive rerr := RAlreadyAttached | RCapacityExceeded.

(* Reactor::attach *)
Definition reactor_attach (w : ws) (f : N) : ws + rerr :=
  let full := N.leb (rcap w) (lenN (reactor w)) in
  let dup := memN f (reactor w) in
  match rorder w with
  | CapFirst => if full then inr RCapacityExceeded else if dup then inr RAlreadyAttached
                else inl (set_reactor w (reactor w ++ [f]))
  | DupFirst => if dup then inr RAlreadyAttached else if full then inr RCapacityExceeded
                else inl (set_reactor w (reactor w ++ [f]))
  end.
(* drop of the reactor guard: FileDescriptorSet::remove / EPOLL_CTL_DEL *)
Definition reactor_detach (w : ws) (f : N) : ws := set_reactor w (removeN f (reactor w)).

(* WaitSet::attach_to_reactor: error mapping (fix eeeea11: CapacityExceeded |-> InsufficientCapacity;
   it was AlreadyAttached before) *)
Definition map_rerr (e : rerr) : aerr :=
  match e with
  | RAlreadyAttached => EAlreadyAttached
  | RCapacityExceeded => EInsufficientCapacity
  end.

(* DeadlineQueue::add_deadline_interval: index = id_count; push; id_count += 1 *)
Definition dq_add (w : ws) (p : N) : ws * N :=
  (set_dq w (dq w ++ [{| de_idx := id_count w; de_period := p |}]) (id_count w + 1), id_count w).
(* drop of the DeadlineQueueGuard: DeadlineQueue::remove(index): first entry with that index *)
Fixpoint dq_remove_first (i : N) (q : list dentry) : list dentry :=
  match q with
  | [] => []
  | e :: t => if N.eqb (de_idx e) i then t else e :: dq_remove_first i t
  end.
Definition dq_remove (w : ws) (i : N) : ws := set_dq w (dq_remove_first i (dq w)) (id_count w).

(* WaitSet::attach(): the capacity check, performed LAST by all three attach functions *)
Definition ws_attach (w : ws) : option ws :=
  if N.eqb (counter w) (rcap w) then None else Some (set_counter w (counter w + 1)).

(* WaitSet::attach_notification *)
Definition attach_notification (w : ws) (f : N) : ws * (aid + aerr) :=
  match reactor_attach w f with
  | inr e => (w, inr (map_rerr e))
  | inl w1 =>
    match ws_attach w1 with
    | None => (reactor_detach w1 f, inr EInsufficientCapacity)      (* reactor_guard dropped by `?` *)
    | Some w2 => (w2, inl (ANotification f))
    end
  end.

(* WaitSet::attach_deadline: reactor, deadline queue, the capacity check, THEN both maps
   (fix 359f071; before it the maps were written ahead of the check and a refused attach left a
   stale pair in each).  The early return drops deadline_queue_guard, then reactor_guard. *)
Definition attach_deadline (w : ws) (f p : N) : ws * (aid + aerr) :=
  match reactor_attach w f with
  | inr e => (w, inr (map_rerr e))
  | inl w1 =>
    let (w2, i) := dq_add w1 p in
    match ws_attach w2 with
    | None => (reactor_detach (dq_remove w2 i) f, inr EInsufficientCapacity)
    | Some w3 => (set_maps w3 (m_insert f i (a2d w3)) (m_insert i f (d2a w3)), inl (ADeadline f i))
    end
  end.

(* WaitSet::attach_interval *)
Definition attach_interval (w : ws) (p : N) : ws * (aid + aerr) :=
  let (w1, i) := dq_add w p in
  match ws_attach w1 with
  | None => (dq_remove w1 i, inr EInsufficientCapacity)
  | Some w2 => (w2, inl (ATick i))
  end.

(* WaitSetGuard::drop: remove_deadline (both maps) for a Deadline guard, detach() (counter),
   then the fields: reactor guard, deadline queue guard *)
Definition guard_drop (w : ws) (g : aid) : ws :=
  match g with
  | ATick i => dq_remove (set_counter w (counter w - 1)) i
  | ADeadline f i =>
      let w1 := set_maps w (m_remove f (a2d w)) (m_remove i (d2a w)) in
      dq_remove (reactor_detach (set_counter w1 (counter w1 - 1)) f) i
  | ANotification f => reactor_detach (set_counter w (counter w - 1)) f
  end.

Definition expired (e : dentry) : bool := N.leb (de_period e) 1.

(* WaitSet::handle_deadlines + DeadlineQueue::missed_deadlines: Vec order; Deadline vs Tick
   decided by deadline_to_attachment *)
Definition handle_deadlines (w : ws) : list aid :=
  flat_map (fun e => if expired e then
                       match m_get (de_idx e) (d2a w) with
                       | Some f => [ADeadline f (de_idx e)]
                       | None => [ATick (de_idx e)]
                       end
                     else []) (dq w).

(* the descriptors a zero-timeout reactor wait reports: attached and readable *)
Definition triggered (w : ws) (pend : list N) : list N :=
  firstn (N.to_nat (rmaxev w)) (filter (fun f => memN f pend) (reactor w)).

(* WaitSet::reset_deadline for every triggered fd: which deadline indices get reset
   (only indices that are in the deadline queue have an effect: DeadlineQueue::reset) *)
Definition proc_resets (w : ws) (pend : list N) : list N :=
  flat_map (fun f => match m_get f (a2d w) with
                     | Some i => if existsb (fun e => N.eqb (de_idx e) i) (dq w) then [i] else []
                     | None => []
                     end) (triggered w pend).

(* WaitSet::wait_and_process_once_with_timeout(fn, ZERO): None = Err(NoAttachments);
   otherwise the attachment ids in callback order (the callback always continues), as two
   segments: those reported by handle_deadlines, then the notifications.
   reactor wait result 0 -> handle_deadlines; n > 0 -> handle_all_attachments = reset, deadlines,
   notifications *)
Definition process_ids (w : ws) (pend : list N) : option (list aid * list aid) :=
  if N.eqb (counter w) 0 then None
  else Some (handle_deadlines w, map ANotification (triggered w pend)).

(* ---------- the system = wait set + what the user holds + the listeners' pending events ---------- *)
Record guard := { g_no : N; g_id : aid; g_period : N }.   (* g_period: 0 for notifications *)

Record sys := {
  w      : ws;
  guards : list guard;     (* live WaitSetGuards, creation order *)
  nextg  : N;              (* number of guards created so far *)
  pend   : list N          (* descriptors whose listener holds unconsumed events *)
}.

Definition sys_new (cap maxev : N) (o : check_order) : sys :=
  {| w := ws_new cap maxev o; guards := []; nextg := 0; pend := [] |}.

Inductive op :=
| OAttachN (f : N)
| OAttachD (f p : N)
| OAttachI (p : N)
| ODrop (j : N)                   (* drop the j-th oldest live guard *)
| ONotify (fs : list N)           (* a notifier fires: every listener of its service gets an event *)
| ODrain (f : N)                  (* listener.try_wait_all() outside of processing *)
| OProcess                        (* callback consumes nothing *)
| OProcessConsume                 (* callback drains the listener of every guard it has an event from *)
| OProcessNotify (fs : list N).   (* the first callback invocation fires a notifier *)

Inductive kind := KEvent | KMissed.

Inductive obs :=
| OAttached (g : N)
| OAttachErr (e : aerr)
| ODropped (b : bool)
| ODone
| ONoAttachments
| ODelivered (dl : list (N * kind)) (nt : list (N * kind)) (foreign : N).
   (* dl: matches of the ids reported from the deadline queue, callback order; nt: matches of the
      notification ids; foreign: ids that match no live guard *)

(* what the user's callback learns about one id: for every live guard, has_event_from and
   has_missed_deadline *)
Definition match_kinds (id : aid) (g : guard) : list (N * kind) :=
  (if has_event_from id (g_id g) then [(g_no g, KEvent)] else []) ++
  (if has_missed_deadline id (g_id g) then [(g_no g, KMissed)] else []).
Definition classify1 (gl : list guard) (id : aid) : list (N * kind) := flat_map (match_kinds id) gl.
Definition classify (gl : list guard) (ids : list aid) : list (N * kind) := flat_map (classify1 gl) ids.
Definition foreign (gl : list guard) (ids : list aid) : N :=
  lenN (filter (fun id => match classify1 gl id with [] => true | _ => false end) ids).

Definition add_pend (fs : list N) (pend : list N) : list N :=
  fold_left (fun acc f => if memN f acc then acc else acc ++ [f]) fs pend.

Definition fd_of (a : aid) : option N :=
  match a with ATick _ => None | ADeadline f _ => Some f | ANotification f => Some f end.

(* descriptors drained by the consuming callback: the callback calls try_wait on the listener
   of every guard the id has_event_from, i.e. of every guard that occurs with KEvent in the
   delivered list; tbl maps guard number -> descriptor (None for intervals) *)
Definition consumed_tbl (tbl : list (N * option N)) (d : list (N * kind)) : list N :=
  flat_map (fun e => match snd e with
                     | KEvent => flat_map (fun t => if N.eqb (fst t) (fst e)
                                                    then match snd t with Some f => [f] | None => [] end
                                                    else []) tbl
                     | KMissed => []
                     end) d.
Definition drain_all (fs : list N) (p : list N) : list N := fold_left (fun acc f => removeN f acc) fs p.

Definition do_attach (s : sys) (r : ws * (aid + aerr)) (p : N) : sys * obs :=
  match r with
  | (w', inl a) =>
      ({| w := w'; guards := guards s ++ [{| g_no := nextg s; g_id := a; g_period := p |}];
          nextg := nextg s + 1; pend := pend s |}, OAttached (nextg s))
  | (w', inr e) => ({| w := w'; guards := guards s; nextg := nextg s; pend := pend s |}, OAttachErr e)
  end.

Fixpoint remove_nth {A} (n : nat) (l : list A) : list A :=
  match l, n with
  | [], _ => []
  | _ :: t, O => t
  | h :: t, S k => h :: remove_nth k t
  end.

Definition do_process (s : sys) (post : list aid -> list (N * kind) -> list N -> list N) : sys * obs :=
  match process_ids (w s) (pend s) with
  | None => (s, ONoAttachments)
  | Some (ids1, ids2) =>
      let d1 := classify (guards s) ids1 in
      let d2 := classify (guards s) ids2 in
      ({| w := w s; guards := guards s; nextg := nextg s; pend := post (ids1 ++ ids2) (d1 ++ d2) (pend s) |},
       ODelivered d1 d2 (foreign (guards s) (ids1 ++ ids2)))
  end.

Definition step (s : sys) (o : op) : sys * obs :=
  match o with
  | OAttachN f => do_attach s (attach_notification (w s) f) 0
  | OAttachD f p => do_attach s (attach_deadline (w s) f p) p
  | OAttachI p => do_attach s (attach_interval (w s) p) p
  | ODrop j =>
      match nth_error (guards s) (N.to_nat j) with
      | None => (s, ODropped false)
      | Some g => ({| w := guard_drop (w s) (g_id g); guards := remove_nth (N.to_nat j) (guards s);
                      nextg := nextg s; pend := pend s |}, ODropped true)
      end
  | ONotify fs => ({| w := w s; guards := guards s; nextg := nextg s; pend := add_pend fs (pend s) |}, ODone)
  | ODrain f => ({| w := w s; guards := guards s; nextg := nextg s; pend := removeN f (pend s) |}, ODone)
  | OProcess => do_process s (fun _ _ p => p)
  | OProcessConsume =>
      do_process s (fun _ d p =>
        drain_all (consumed_tbl (map (fun g => (g_no g, fd_of (g_id g))) (guards s)) d) p)
  | OProcessNotify fs =>
      do_process s (fun ids _ p => match ids with [] => p | _ => add_pend fs p end)
  end.

Fixpoint run (s : sys) (h : list op) : sys * list obs :=
  match h with
  | [] => (s, [])
  | o :: t => let (s1, ob) := step s o in let (s2, obs) := run s1 t in (s2, ob :: obs)
  end.

(* ================= reference specification =================
   What the property text promises, over the simplest possible state: the set of live
   attachments (in creation order), the capacity and the pending events.  A refused attach
   changes nothing.  Documented errors (WaitSetAttachmentError): an object that is already
   attached -> AlreadyAttached; no room -> InsufficientCapacity. *)
Inductive skind := SNotif (f : N) | SDeadline (f p : N) | STick (p : N).

Record sp := { s_cap : N; s_gl : list (N * skind); s_next : N; s_pend : list N }.
Definition sp_new (cap : N) : sp := {| s_cap := cap; s_gl := []; s_next := 0; s_pend := [] |}.

Definition sk_fd (k : skind) : option N :=
  match k with SNotif f => Some f | SDeadline f _ => Some f | STick _ => None end.
Definition s_attached (gl : list (N * skind)) (f : N) : bool :=
  existsb (fun g => match sk_fd (snd g) with Some f' => N.eqb f' f | None => false end) gl.
Definition sp_expired (p : N) : bool := N.leb p 1.

(* dispatch = {Deadline/Tick g | g attached and expired} ++ {Notification g | g attached and
   its listener has a pending event} *)
Definition dispatch_dl (gl : list (N * skind)) : list (N * kind) :=
  flat_map (fun g => match snd g with
                     | STick p => if sp_expired p then [(fst g, KEvent)] else []
                     | SDeadline _ p => if sp_expired p then [(fst g, KMissed)] else []
                     | SNotif _ => []
                     end) gl.
Definition dispatch_nt (gl : list (N * skind)) (pend : list N) : list (N * kind) :=
  flat_map (fun g => match sk_fd (snd g) with
                     | Some f => if memN f pend then [(fst g, KEvent)] else []
                     | None => []
                     end) gl.

(* the documented reasons to refuse an attach; when the object is already attached AND the wait
   set is full, either reason is a correct answer (the select reactor checks the capacity
   first, epoll the duplicate) *)
Definition sp_attach_errs (s : sp) (k : skind) : list aerr :=
  (if match sk_fd k with Some f => s_attached (s_gl s) f | None => false end then [EAlreadyAttached] else []) ++
  (if N.leb (s_cap s) (lenN (s_gl s)) then [EInsufficientCapacity] else []).

Definition sp_attach (s : sp) (k : skind) : sp * obs :=
  match sp_attach_errs s k with
  | e :: _ => (s, OAttachErr e)
  | [] => ({| s_cap := s_cap s; s_gl := s_gl s ++ [(s_next s, k)]; s_next := s_next s + 1; s_pend := s_pend s |},
           OAttached (s_next s))
  end.

Definition op_skind (o : op) : option skind :=
  match o with
  | OAttachN f => Some (SNotif f) | OAttachD f p => Some (SDeadline f p) | OAttachI p => Some (STick p)
  | _ => None
  end.

(* an observation of the implementation is acceptable for the specification *)
Definition obs_ok (s : sp) (o : op) (impl : obs) : bool :=
  match impl, op_skind o with
  | OAttachErr e, Some k => existsb (fun e' => match e, e' with
                                               | EInsufficientCapacity, EInsufficientCapacity => true
                                               | EAlreadyAttached, EAlreadyAttached => true
                                               | _, _ => false end) (sp_attach_errs s k)
  | _, _ => false
  end.

Definition sp_set_pend (s : sp) (p : list N) : sp :=
  {| s_cap := s_cap s; s_gl := s_gl s; s_next := s_next s; s_pend := p |}.

Definition sp_process (s : sp) (post : list (N * kind) -> list N -> list N) : sp * obs :=
  match s_gl s with
  | [] => (s, ONoAttachments)
  | _ => let d1 := dispatch_dl (s_gl s) in
         let d2 := dispatch_nt (s_gl s) (s_pend s) in
         (sp_set_pend s (post (d1 ++ d2) (s_pend s)), ODelivered d1 d2 0)
  end.

Definition sp_step (s : sp) (o : op) : sp * obs :=
  match o with
  | OAttachN f => sp_attach s (SNotif f)
  | OAttachD f p => sp_attach s (SDeadline f p)
  | OAttachI p => sp_attach s (STick p)
  | ODrop j =>
      match nth_error (s_gl s) (N.to_nat j) with
      | None => (s, ODropped false)
      | Some _ => ({| s_cap := s_cap s; s_gl := remove_nth (N.to_nat j) (s_gl s); s_next := s_next s;
                      s_pend := s_pend s |}, ODropped true)
      end
  | ONotify fs => (sp_set_pend s (add_pend fs (s_pend s)), ODone)
  | ODrain f => (sp_set_pend s (removeN f (s_pend s)), ODone)
  | OProcess => sp_process s (fun _ p => p)
  | OProcessConsume =>
      sp_process s (fun d p => drain_all (consumed_tbl (map (fun g => (fst g, sk_fd (snd g))) (s_gl s)) d) p)
  | OProcessNotify fs => sp_process s (fun d p => match d with [] => p | _ => add_pend fs p end)
  end.

Fixpoint sp_run (s : sp) (h : list op) : sp * list obs :=
  match h with
  | [] => (s, [])
  | o :: t => let (s1, ob) := sp_step s o in let (s2, obs) := sp_run s1 t in (s2, ob :: obs)
  end.

(* ================= vocabulary of the property statements (props/C20.v) ================= *)
Local Open Scope N_scope.
(* the abstraction of a system state: what the specification sees of it *)
Definition abs_k (g : guard) : skind :=
  match g_id g with
  | ATick _ => STick (g_period g)
  | ADeadline f _ => SDeadline f (g_period g)
  | ANotification f => SNotif f
  end.
Definition abs_g (g : guard) : N * skind := (g_no g, abs_k g).
Definition abs (s : sys) : sp :=
  {| s_cap := rcap (w s); s_gl := map abs_g (guards s); s_next := nextg s; s_pend := pend s |}.


(* the reactor wait of this processing call is not truncated (Epoll::max_wait_events() = 512) *)
Definition ready_ok (s : sys) : Prop :=
  lenN (filter (fun f => memN f (pend s)) (reactor (w s))) <= rmaxev (w s).

Definition is_process (o : op) : bool :=
  match o with OProcess | OProcessConsume | OProcessNotify _ => true | _ => false end.


(* what the specification prescribes for a processing call in state s *)
Definition spec_delivery (s : sys) : obs :=
  match guards s with
  | [] => ONoAttachments
  | _ => ODelivered (dispatch_dl (map abs_g (guards s))) (dispatch_nt (map abs_g (guards s)) (pend s)) 0
  end.


(* an observation of the model agrees with the specification's: equal, or a documented error *)
Definition obs_rel (a : sp) (o : op) (om os : obs) : Prop := om = os \/ obs_ok a o om = true.

Fixpoint obs_rel_run (a : sp) (h : list op) (om os : list obs) : Prop :=
  match h, om, os with
  | [], [], [] => True
  | o :: h', m :: om', s' :: os' => obs_rel a o m s' /\ obs_rel_run (fst (sp_step a o)) h' om' os'
  | _, _, _ => False
  end.


(* guard number n does not occur in a delivery *)
Definition not_reported (n : N) (ob : obs) : Prop :=
  match ob with ODelivered dl nt _ => ~ In n (map fst (dl ++ nt)) | _ => True end.


(* operations that do not consume the events of descriptor f *)
Definition keeps (f : N) (o : op) : Prop := o <> ODrain f /\ o <> OProcessConsume.


(* every component of the wait set is the same, except DeadlineQueue::id_count (an allocation
   cursor: indices are only ever compared with the indices of live entries), which may have grown *)
Definition ws_unchanged_but_cursor (W W' : ws) : Prop :=
  rcap W' = rcap W /\ rmaxev W' = rmaxev W /\ rorder W' = rorder W /\ reactor W' = reactor W /\
  dq W' = dq W /\ a2d W' = a2d W /\ d2a W' = d2a W /\ counter W' = counter W /\
  id_count W <= id_count W'.


(* the state reached from a fresh wait set by history h *)
Definition reach (cap maxev : N) (ord : check_order) (h : list op) : sys :=
  fst (run (sys_new cap maxev ord) h).

(* ================= the deadline queue with time =================
   iceoryx2-bb/posix/src/deadline_queue.rs with its clock: Attachment {index, period,
   start_time}, previous_iteration, handle_missed_deadlines, duration_until_next_deadline,
   missed_deadlines.  Times are numbers supplied by the history (the clock is monotone:
   the theorems assume start_time <= now, which is what keeps the u128 subtractions of the
   code from underflowing).  DeadlineQueue::reset (a notified deadline attachment) is not part
   of this model: the timed scenarios never notify.
   The user callbacks run inside handle_missed_deadlines, i.e. AFTER `now` was read and BEFORE
   previous_iteration is written; the code writes the `now` the deadlines were evaluated
   against (t_report).  Writing the time at which the callbacks have returned instead
   (t_report_late) loses every boundary that falls between the two. *)
Record tentry := { t_idx : N; t_period : N; t_start : N }.
Record tdq := { t_att : list tentry; t_idc : N; t_prev : N }.

Definition tdq_new (now : N) : tdq := {| t_att := []; t_idc := 0; t_prev := now |}.
Definition t_set_prev (q : tdq) (p : N) : tdq := {| t_att := t_att q; t_idc := t_idc q; t_prev := p |}.

(* add_deadline_interval at time now *)
Definition t_add (q : tdq) (period now : N) : tdq :=
  {| t_att := t_att q ++ [{| t_idx := t_idc q; t_period := period; t_start := now |}];
     t_idc := t_idc q + 1; t_prev := t_prev q |}.

(* the test of handle_missed_deadlines for one attachment *)
Definition t_due (prev now : N) (e : tentry) : bool :=
  if N.eqb (t_period e) 0 then true
  else N.ltb ((N.max prev (t_start e) - t_start e) / t_period e) ((now - t_start e) / t_period e).

Definition t_missed (q : tdq) (now : N) : list N := map t_idx (filter (t_due (t_prev q) now) (t_att q)).

(* duration_until_next_deadline at time now: previous_iteration moves only when nothing is due *)
Definition t_peek (q : tdq) (now : N) : tdq :=
  if existsb (t_due (t_prev q) now) (t_att q) then q else t_set_prev q now.

(* missed_deadlines at time now; the callbacks then run for d; previous_iteration := now *)
Definition t_report (q : tdq) (now : N) : tdq * list N := (t_set_prev q now, t_missed q now).
(* the refuted rule: previous_iteration := the time after the callbacks *)
Definition t_report_late (q : tdq) (now d : N) : tdq * list N := (t_set_prev q (now + d), t_missed q now).

(* one zero-timeout processing call of a wait set without triggered descriptors:
   duration_until_next_deadline at time a, missed_deadlines at time b (a <= b) *)
Definition t_call (q : tdq) (a b : N) : tdq * list N := t_report (t_peek q a) b.
Definition t_call_late (q : tdq) (a b d : N) : tdq * list N := t_report_late (t_peek q a) b d.

(* reference: the first period boundary after the previous evaluation has been reached *)
Definition t_next_boundary (prev : N) (e : tentry) : N :=
  t_start e + ((N.max prev (t_start e) - t_start e) / t_period e + 1) * t_period e.
Definition t_spec_due (prev now : N) (e : tentry) : bool :=
  if N.eqb (t_period e) 0 then true else N.leb (t_next_boundary prev e) now.
Definition t_spec_missed (q : tdq) (now : N) : list N :=
  map t_idx (filter (t_spec_due (t_prev q) now) (t_att q)).
