(* Step model of iceoryx2-bb/lock-free/src/spmc/unrestricted_atomic.rs: UnrestrictedAtomic<T>,
   the two-cell sequence lock behind every blackboard entry.

     mgmt.write_cell : AtomicU64, starts at 1        mgmt.has_producer : AtomicBool, starts true
     data : [UnsafeCell<MaybeUninit<T>>; 2], cell 0 holds the initial value

     acquire_producer:  CAS has_producer true -> false (Acquire / Relaxed)
     drop(Producer):    store has_producer := true (Release)
     store(v):          w := load write_cell (Relaxed);
                        data[w % 2].get()  ; raw write of size_of::<T>() bytes ;
                        fetch_add write_cell 1 (AcqRel: the acquire half reads from the release sequence of the
                        readers' validating CASes, so their copies happen-before the writer's next cell write)
     loan path:         __internal_get_ptr_to_write_cell: w := load write_cell (Relaxed); data[w % 2].get()
                        (the caller writes through the pointer)
                        __internal_update_write_cell: fetch_add write_cell 1 (AcqRel)
                        -- or the loan is discarded: no fetch_add, the spare cell keeps the garbage
     load():            w := load write_cell (Acquire);
                        loop { raw copy of size_of::<T>() bytes from cell (w - 1) % 2  (NO UnsafeCell::get:
                               the address is computed from data.as_ptr());
                               CAS write_cell w -> w (AcqRel / SeqCst): Ok => return; Err(v) => w := v }

   Two step functions over the same state:
     fstep : the FINE model.  Every atomic access, the UnsafeCell::get, and EVERY SINGLE BYTE of a
             copy is its own step, so a writer can lap a reader in the middle of a copy (and a
             reader can observe a half-written spare cell).  The theorems are proved on it.
     step  : the COARSE model = what the G1 gate can observe: a byte copy is not a gated access,
             it runs in the scheduler step of the gated access that precedes it (store: the
             UnsafeCell::get; load: the load / the failed CAS of write_cell).  Defined as one fine
             step followed by the fine byte steps of the same thread, hence a projection of the
             fine model by construction (proofs/SeqLockProofs.v: coarse_run_is_fine_run).

   A value is a list of bytes; the object stores its n-byte image `img n v` (n = size_of::<T>()).
   write_cell is a u64: fetch_add wraps modulo 2^64 and `w - 1` of the reader panics for w = 0
   (overflow checks are on in the harness build); the theorems exclude the wrap by hypothesis. *)
From V Require Import model.Base model.Conc model.Events.
Open Scope N_scope.

Definition value := list N.
Definition W64 : N := 18446744073709551616.

Definition img (n : nat) (v : value) : value := map (fun i => nth i v 0) (seq 0 n).

Inductive wmode := MStore | MLoan | MDiscard.
Inductive sop := OAcq | ORel | OStore (v : value) | OLoan (v : value) | OLoanDiscard (v : value) | OLoad.

Inductive pc :=
| Idle
| WCell (m : wmode) (v : value) (w : N)            (* next: UnsafeCell::get of data[w % 2] *)
| WByte (m : wmode) (v : value) (w : N) (i : nat)  (* copy in progress, next: write byte i of cell w % 2 *)
| WFadd (m : wmode) (v : value) (w : N)            (* next: fetch_add(write_cell, 1, AcqRel) *)
| RByte (w0 w : N) (buf : value) (i : nat)         (* copy in progress, next: read byte i of cell (w-1) % 2 *)
| RCas (w0 w : N) (buf : value).                   (* next: CAS(write_cell, w, w) *)

(* thread-local state; `loads` is ghost: (first write_cell value seen by the load, validated
   write_cell value, returned bytes) of every completed load of this thread, newest first *)
Record lst := { prog : list sop; at_pc : pc; holdsP : bool; loads : list (N * N * value) }.

Record gst := {
  vsize : nat; wc : N; c0 : value; c1 : value; hasP : bool;
  (* ghost: never read by a step *)
  ownerP : option Datatypes.nat;
  written : list value   (* k-th element = image made current by the k-th fetch_add; element 0 = initial value *)
}.

Definition B_WC : N := 0.  Definition B_HASP : N := 1.  Definition B_CELL : N := 2.

Definition cellv (g : gst) (i : N) : value := if N.eqb (i mod 2) 0 then c0 g else c1 g.
Definition set_cell (g : gst) (i : N) (c : value) : gst :=
  if N.eqb (i mod 2) 0
  then {| vsize := vsize g; wc := wc g; c0 := c; c1 := c1 g; hasP := hasP g; ownerP := ownerP g; written := written g |}
  else {| vsize := vsize g; wc := wc g; c0 := c0 g; c1 := c; hasP := hasP g; ownerP := ownerP g; written := written g |}.
Definition set_owner (g : gst) (h : bool) (o : option Datatypes.nat) : gst :=
  {| vsize := vsize g; wc := wc g; c0 := c0 g; c1 := c1 g; hasP := h; ownerP := o; written := written g |}.
Definition publish (g : gst) (v : value) : gst :=
  {| vsize := vsize g; wc := (wc g + 1) mod W64; c0 := c0 g; c1 := c1 g; hasP := hasP g; ownerP := ownerP g;
     written := written g ++ [v] |}.

Definition set_lst (l : lst) (p : list sop) (c : pc) : lst :=
  {| prog := p; at_pc := c; holdsP := holdsP l; loads := loads l |}.
Definition set_holds (l : lst) (p : list sop) (h : bool) : lst :=
  {| prog := p; at_pc := Idle; holdsP := h; loads := loads l |}.

(* access sites: store 10/11/12, loan path 20/21/22, load 30/31 *)
Definition site_ld (m : wmode) : N := match m with MStore => 10 | _ => 20 end.
Definition site_cell (m : wmode) : N := match m with MStore => 11 | _ => 21 end.
Definition site_fadd (m : wmode) : N := match m with MStore => 12 | _ => 22 end.

(* where the writer goes once bytes 0..i-1 are written *)
Definition w_next (m : wmode) (v : value) (w : N) (i n : nat) : pc :=
  if Nat.ltb i n then WByte m v w i else match m with MDiscard => Idle | _ => WFadd m v w end.
(* the loan call returns to the caller when its copy is complete *)
Definition w_done_ev (m : wmode) (i n : nat) : list ev :=
  if Nat.ltb i n then [] else match m with MStore => [] | _ => [ERet 0] end.
Definition r_next (w0 w : N) (buf : value) (i n : nat) : pc :=
  if Nat.ltb i n then RByte w0 w buf i else RCas w0 w buf.

(* result code of a load: a hash of the returned bytes (the harness computes the same) *)
Definition vhash (b : value) : N := fold_left (fun h x => (h * 31 + x + 1) mod 4294967296) b 7.
Definition PANIC : N := 18446744073709551615.

Definition start_write (m : wmode) (v : value) (g : gst) (l : lst) (p : list sop) : option (gst * lst * list ev) :=
  if holdsP l
  then Some (g, set_lst l p (WCell m v (wc g)), [EAcc (site_ld m) B_WC 0 KLoad Relaxed Relaxed (wc g) 0 true])
  else Some (g, set_lst l p Idle, []).    (* no Producer: the call does not type-check in Rust; skipped *)

Definition fstep (t : nat) (g : gst) (l : lst) : option (gst * lst * list ev) :=
  match at_pc l with
  | Idle =>
    match prog l with
    | [] => None
    | OAcq :: p =>
      if hasP g
      then Some (set_owner g false (Some t), set_holds l p true,
                 [EAcc 1 B_HASP 0 KCas Acquire Relaxed 1 0 true; ERet 1])
      else Some (g, set_lst l p Idle, [EAcc 1 B_HASP 0 KCas Acquire Relaxed 0 0 false; ERet 0])
    | ORel :: p =>
      if holdsP l
      then Some (set_owner g true None, set_holds l p false,
                 [EAcc 2 B_HASP 0 KStore Release Release 0 1 true; ERet 0])
      else Some (g, set_lst l p Idle, [])
    | OStore v :: p => start_write MStore v g l p
    | OLoan v :: p => start_write MLoan v g l p
    | OLoanDiscard v :: p => start_write MDiscard v g l p
    | OLoad :: p =>
      let e := EAcc 30 B_WC 0 KLoad Acquire Acquire (wc g) 0 true in
      if N.eqb (wc g) 0
      then Some (g, set_lst l [] Idle, [e; ERet PANIC])        (* `w - 1` overflows: panic *)
      else Some (g, set_lst l p (r_next (wc g) (wc g) [] 0 (vsize g)), [e])
    end
  | WCell m v w =>
    Some (g, set_lst l (prog l) (w_next m v w 0 (vsize g)),
          EAcc (site_cell m) B_CELL (w mod 2) KCell NotAtomic NotAtomic 0 0 true :: w_done_ev m 0 (vsize g))
  | WByte m v w i =>
    Some (set_cell g w (upd (cellv g w) i (nth i v 0)),
          set_lst l (prog l) (w_next m v w (S i) (vsize g)),
          w_done_ev m (S i) (vsize g))
  | WFadd m v w =>
    Some (publish g (img (vsize g) v), set_lst l (prog l) Idle,
          [EAcc (site_fadd m) B_WC 0 KFetchAdd AcqRel AcqRel (wc g) ((wc g + 1) mod W64) true; ERet 0])
  | RByte w0 w buf i =>
    Some (g, set_lst l (prog l) (r_next w0 w (buf ++ [nth i (cellv g (w - 1)) 0]) (S i) (vsize g)), [])
  | RCas w0 w buf =>
    if N.eqb (wc g) w
    then Some (g, {| prog := prog l; at_pc := Idle; holdsP := holdsP l; loads := (w0, w, buf) :: loads l |},
               [EAcc 31 B_WC 0 KCas AcqRel SeqCst (wc g) w true; ERet (vhash buf)])
    else
      let e := EAcc 31 B_WC 0 KCas AcqRel SeqCst (wc g) w false in
      if N.eqb (wc g) 0
      then Some (g, set_lst l [] Idle, [e; ERet PANIC])
      else Some (g, set_lst l (prog l) (r_next w0 (wc g) [] 0 (vsize g)), [e])
  end.

(* ---- the coarse model: the byte steps ride on the preceding gated access ---- *)
Definition in_copy (p : pc) : bool :=
  match p with WByte _ _ _ _ | RByte _ _ _ _ => true | _ => false end.

Fixpoint burst (fuel : nat) (t : nat) (g : gst) (l : lst) : gst * lst * list ev :=
  match fuel with
  | O => (g, l, [])
  | S k =>
    if in_copy (at_pc l)
    then match fstep t g l with
         | None => (g, l, [])
         | Some (g', l', e) => let '(g'', l'', e') := burst k t g' l' in (g'', l'', e ++ e')
         end
    else (g, l, [])
  end.

Definition step (t : nat) (g : gst) (l : lst) : option (gst * lst * list ev) :=
  match fstep t g l with
  | None => None
  | Some (g', l', e) => let '(g'', l'', e') := burst (vsize g) t g' l' in Some (g'', l'', e ++ e')
  end.

Definition g_init (n : nat) (v0 : value) : gst :=
  {| vsize := n; wc := 1; c0 := img n v0; c1 := repeat 0 n; hasP := true; ownerP := None; written := [img n v0] |}.
Definition l_init (p : list sop) : lst := {| prog := p; at_pc := Idle; holdsP := false; loads := [] |}.
Definition init (n : nat) (v0 : value) (progs : nat -> list sop) : cfg gst lst :=
  (g_init n v0, fun t => l_init (progs t)).

(* ---- reference notions the property statement is about ---- *)
(* the current value of the object *)
Definition current (g : gst) : value := cellv g (wc g - 1).
(* chronological list of the write_cell values validated by a thread's completed loads *)
Definition validated (l : lst) : list N := rev (map (fun x => snd (fst x)) (loads l)).

(* ---- __internal_get_data_cell(value_size, value_alignment, data_ptr, cell):
        align(data_ptr + value_size * (cell % 2), value_alignment)
   with iceoryx2-bb/elementary/src/math.rs align ---- *)
Definition align (v a : N) : N := if N.eqb (v mod a) 0 then v else v + a - v mod a.
Definition data_cell (size al ptr cell : N) : N := align (ptr + size * (cell mod 2)) al.
(* bytes reserved for the two cells by __internal_get_unrestricted_atomic_size *)
Definition reserved (size al : N) : N := 2 * align size al.
