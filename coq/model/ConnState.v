(* Step model of the zero-copy connection lifecycle (property C13):
     iceoryx2-cal/src/zero_copy_connection/common.rs
        enum State { None = 0, Sender = 1, Receiver = 2, MarkedForDestruction = 128 }
        SharedManagementData::state : AtomicU8
        Builder::create_or_open_shm, SharedManagementData::{reserve_port, remove_state, is_connected},
        cleanup_shared_memory, Drop for Sender / Receiver, Connection::remove_port (forced removal)
     iceoryx2-cal/src/dynamic_storage/process_local.rs (the storage the G1 tie runs on)
        Builder::open_or_create / open, Storage::{has_ownership, acquire_ownership,
        release_ownership} (an AtomicBool per handle), Drop for Storage (remove_cfg BY NAME if owner)
   The same storage protocol is what dynamic_storage/posix_shared_memory.rs implements with
   shm_open(O_CREAT|O_EXCL) / shm_unlink(name) and a has_ownership flag inside SharedMemory.

   One connection NAME.  Every creation of the backing storage makes a new *incarnation*
   (numbered 0,1,2,.. in creation order; ids are never reused); `cur` is the incarnation the name
   currently refers to.  A handle (dynamic storage object inside a Sender / Receiver / the
   temporary one of remove_port) has mapped one incarnation and keeps it mapped after the name is
   unlinked or re-created (Arc in process_local, mmap in posix shm).

   GRANULARITY.  One step = one access to the state byte, or one access to the handle's
   has_ownership flag, or one storage-level operation on the name (open_or_create / open /
   remove_cfg).  In process_local.rs a storage-level operation is a critical section of
   PROCESS_LOCAL_STORAGE (a pthread mutex around a BTreeMap); its first gated access is
   `self.handle.handle.get()` in Mutex::lock (the cell of the pthread handle, read BEFORE
   pthread_mutex_lock) -- that access is the scheduling point of the step, and everything up to
   the matching `handle.get()` in MutexGuard::drop runs inside that step (the gate never parks a
   thread inside the critical section: a parked lock holder would block the other threads in the
   real mutex).  The step's event is a KSwap on location (B_MAP,0) whose "read" value is the
   number of BTreeMap accesses made under the lock (guard derefs: 1 = lookup only, 2 = lookup +
   remove, 4 = failed lookup + create) and whose "written" value is the number of storages
   initialised (0/1); the harness derives both numbers from the gated accesses it sees inside
   the critical section, so hit/miss/create is part of the compared trace.
   Accesses that are neither on the state byte, the ownership flag nor the map (log-level loads,
   relocatable-pointer offset loads, the queue/bump-allocator initialisation inside the creating
   critical section, the channel-state stores of remove_port) run inside the step of the
   preceding gated access and are not events: none of them is read by this protocol. *)
From V Require Import model.Base model.Conc model.Events.
Open Scope N_scope.

Inductive role := RSend | RRecv.
Definition rbit (r : role) : N := match r with RSend => 1 | RRecv => 2 end.
Definition MARKED : N := 128.
Definition CONNECTED : N := 3.

(* ---------- byte-level transition functions (what the CAS loops compute) ---------- *)

(* reserve_port: the check performed on every observed value of the byte *)
Inductive rsv := RsvAnother | RsvCleanup | RsvTry (new : N).
Definition reserve_check (cur : N) (r : role) : rsv :=
  if negb (N.land cur (rbit r) =? 0) then RsvAnother
  else if negb (N.land cur MARKED =? 0) then RsvCleanup
  else RsvTry (N.lor cur (rbit r)).

(* remove_state: the value the CAS tries to install; `!x` on u8 is 255 - x *)
Definition remove_new (cur : N) (r : role) : N :=
  if cur =? rbit r then MARKED else N.land cur (255 - rbit r).

(* ---------- parameters compared by create_or_open_shm when opening ---------- *)
Record params := { p_bs : N; p_mb : N; p_ovf : bool; p_ns : N; p_seg : N; p_ch : N }.

(* result codes of create_sender and create_receiver: 0 Ok, then ZeroCopyCreationError *)
Definition C_OK : N := 0.
Definition C_CLEANUP : N := 1.    (* IsBeingCleanedUp *)
Definition C_ANOTHER : N := 2.    (* AnotherInstanceIsAlreadyConnected *)
Definition C_BS : N := 3.         (* IncompatibleBufferSize *)
Definition C_MB : N := 4.         (* IncompatibleMaxBorrowedSamplesPerChannelSetting *)
Definition C_OVF : N := 5.        (* IncompatibleOverflowSetting *)
Definition C_NS : N := 6.         (* IncompatibleNumberOfSamples *)
Definition C_SEG : N := 7.        (* IncompatibleNumberOfSegments *)
Definition C_CH : N := 8.         (* IncompatibleNumberOfChannels *)
Definition C_NOEXIST : N := 1.    (* remove_port: ZeroCopyPortRemoveError::DoesNotExist *)

(* same order as the if-chain of create_or_open_shm: submission queue capacity (= buffer size),
   completion queue capacity (= buffer size + max borrowed + 1), overflow, samples per segment,
   segments, channels *)
Definition mismatch (mine stored : params) : option N :=
  if negb (p_bs stored =? p_bs mine) then Some C_BS
  else if negb (p_bs stored + p_mb stored + 1 =? p_bs mine + p_mb mine + 1) then Some C_MB
  else if negb (Bool.eqb (p_ovf stored) (p_ovf mine)) then Some C_OVF
  else if negb (p_ns stored =? p_ns mine) then Some C_NS
  else if negb (p_seg stored =? p_seg mine) then Some C_SEG
  else if negb (p_ch stored =? p_ch mine) then Some C_CH
  else None.

(* ---------- state ---------- *)
Definition hid := (nat * nat)%type.     (* handle identity: thread, index of the creating op *)

Record handle := { h_inc : nat; h_own : bool; h_role : role; h_id : nat }.

Record inc := {
  i_st : N;                 (* SharedManagementData::state *)
  i_par : params;           (* what the creator's initializer wrote *)
  (* ghost *)
  i_hs : option hid;        (* the handle whose reserve_port set the Sender bit (cleared with the bit) *)
  i_hr : option hid
}.

Record unlink_ev := {
  u_t : nat;                (* thread *)
  u_hinc : nat;             (* incarnation the unlinking handle has mapped *)
  u_rm : option nat;        (* incarnation the name referred to (None: nothing there, remove_cfg -> false) *)
  u_st : N;                 (* state byte of the removed incarnation at that moment *)
  u_att : bool              (* a role was attached to the removed incarnation *)
}.

Record gst := {
  cur : option nat;
  incs : list inc;          (* by incarnation id *)
  (* ghost, never read by a step *)
  unl : list unlink_ev;
  saw_marked : bool;        (* a remove_state found the byte already MarkedForDestruction *)
  stolen : list hid         (* ports whose role bit was cleared by a handle other than themselves
                               (forced removal, or the Drop of a port that had itself been removed) *)
}.

Inductive op :=
| OCreate (r : role) (p : params)     (* Builder::create_sender / create_receiver *)
| ODrop (k : nat)                     (* drop the port created by this thread's op k *)
| OLeak (k : nat)                     (* the port of op k dies without running Drop (mem::forget) *)
| OForce (r : role)                   (* Connection::remove_sender / remove_receiver *)
| OIsConn (k : nat).                  (* port.is_connected() *)

(* why a storage handle is being torn down -> what the running operation returns afterwards *)
Inductive why := WDrop | WFail (code : N) | WForce.
Definition why_code (w : why) : N := match w with WDrop => 0 | WFail c => c | WForce => 0 end.

Inductive pc :=
| Idle
| CrLoad (h : handle) (p : params)          (* reserve_port: state.load *)
| CrCas (h : handle) (p : params) (c : N)   (* reserve_port: compare_exchange(c, c | bit) *)
| CrFail (h : handle) (code : N)            (* reserve_port failed: storage.release_ownership() *)
| CrOwn (h : handle) (p : params)           (* storage.has_ownership() *)
| CrRel (h : handle)                        (* storage.release_ownership() *)
| RsLoad (h : handle) (w : why)             (* remove_state: state.load *)
| RsCas (h : handle) (w : why) (c : N)      (* remove_state: compare_exchange(c, remove_new c) *)
| Acq (h : handle) (w : why)                (* storage.acquire_ownership() *)
| DrOwn (h : handle) (w : why)              (* Drop for Storage: has_ownership() *)
| DrRm (h : handle) (w : why).              (* Drop for Storage: remove_cfg(name) *)

Record lst := { prog : list op; opi : nat; at_pc : pc; hs : list (option handle) }.

(* location bases *)
Definition B_MAP : N := 0.   Definition B_STATE : N := 1.   Definition B_OWN : N := 2.
Definition own_loc (t : nat) (h : handle) : N := N.of_nat (t * 64 + h_id h).
Definition st_loc (h : handle) : N := N.of_nat (h_inc h).

Definition dflt_par : params := {| p_bs := 0; p_mb := 0; p_ovf := false; p_ns := 0; p_seg := 0; p_ch := 0 |}.
Definition dflt_inc : inc := {| i_st := 0; i_par := dflt_par; i_hs := None; i_hr := None |}.
Definition get_inc (g : gst) (i : nat) : inc := nth i (incs g) dflt_inc.
Definition st_of (g : gst) (i : nat) : N := i_st (get_inc g i).

Definition set_inc (g : gst) (i : nat) (x : inc) : gst :=
  {| cur := cur g; incs := upd (incs g) i x; unl := unl g;
     saw_marked := saw_marked g; stolen := stolen g |}.

Definition holder (x : inc) (r : role) : option hid := match r with RSend => i_hs x | RRecv => i_hr x end.
Definition set_holder (x : inc) (r : role) (st : N) (v : option hid) : inc :=
  match r with
  | RSend => {| i_st := st; i_par := i_par x; i_hs := v; i_hr := i_hr x |}
  | RRecv => {| i_st := st; i_par := i_par x; i_hs := i_hs x; i_hr := v |}
  end.
Definition attached (x : inc) : bool :=
  match i_hs x, i_hr x with None, None => false | _, _ => true end.

Definition exists_code (g : gst) : N := match cur g with Some _ => 1 | None => 0 end.
Definition ret_ev (g : gst) (code : N) : ev := ERet (2 * code + exists_code g).

(* the running operation is complete: next op; slot `opi` of hs records the port it produced *)
Definition finish (l : lst) (x : option handle) : lst :=
  {| prog := tl (prog l); opi := S (opi l); at_pc := Idle; hs := hs l ++ [x] |}.
Definition goto (l : lst) (p : pc) : lst :=
  {| prog := prog l; opi := opi l; at_pc := p; hs := hs l |}.
Definition clear_h (l : lst) (k : nat) : lst :=
  {| prog := prog l; opi := opi l; at_pc := at_pc l; hs := upd (hs l) k None |}.

Definition set_own (h : handle) (b : bool) : handle :=
  {| h_inc := h_inc h; h_own := b; h_role := h_role h; h_id := h_id h |}.

Definition hid_eqb (a b : hid) : bool := Nat.eqb (fst a) (fst b) && Nat.eqb (snd a) (snd b).
(* the role bit held by `old` is cleared by handle `me` *)
Definition steal (g : gst) (old : option hid) (me : hid) : gst :=
  match old with
  | Some o => if hid_eqb o me then g
              else {| cur := cur g; incs := incs g; unl := unl g;
                      saw_marked := saw_marked g; stolen := o :: stolen g |}
  | None => g
  end.

Definition flag_marked (g : gst) : gst :=
  {| cur := cur g; incs := incs g; unl := unl g;
     saw_marked := true; stolen := stolen g |}.

(* reserve_port after observing value c (from the load or from a failed CAS) *)
Definition reserve_next (g : gst) (l : lst) (h : handle) (p : params) (c : N) (e : ev)
  : gst * lst * list ev :=
  match reserve_check c (h_role h) with
  | RsvAnother => (g, goto l (CrFail h C_ANOTHER), [e])
  | RsvCleanup => (g, goto l (CrFail h C_CLEANUP), [e])
  | RsvTry _ => (g, goto l (CrCas h p c), [e])
  end.

(* remove_state: first access (also the first access of ODrop) *)
Definition rs_load (g : gst) (l : lst) (h : handle) (w : why) : gst * lst * list ev :=
  let c := st_of g (h_inc h) in
  let e := EAcc 20 B_STATE (st_loc h) KLoad Relaxed Relaxed c 0 true in
  if c =? MARKED then (flag_marked g, goto l (Acq h w), [e])
  else (g, goto l (RsCas h w c), [e]).

Definition step (t : nat) (g : gst) (l : lst) : option (gst * lst * list ev) :=
  match at_pc l with
  | Idle =>
    match prog l with
    | [] => None
    | OCreate r p :: _ =>
      (* DynamicStorageBuilder::open_or_create under the map lock *)
      match cur g with
      | Some i =>
        Some (g, goto l (CrLoad {| h_inc := i; h_own := false; h_role := r; h_id := opi l |} p),
              [EAcc 1 B_MAP 0 KSwap NotAtomic NotAtomic 1 0 true])
      | None =>
        let i := length (incs g) in
        Some ({| cur := Some i;
                 incs := incs g ++ [{| i_st := 0; i_par := p; i_hs := None; i_hr := None |}];
                 unl := unl g; saw_marked := saw_marked g; stolen := stolen g |},
              goto l (CrLoad {| h_inc := i; h_own := true; h_role := r; h_id := opi l |} p),
              [EAcc 1 B_MAP 0 KSwap NotAtomic NotAtomic 4 1 true])
      end
    | ODrop k :: _ =>
      match nth k (hs l) None with
      | Some h => Some (rs_load g (clear_h l k) h WDrop)
      | None => Some (g, finish l None, [])
      end
    | OLeak k :: _ => Some (g, finish (clear_h l k) None, [])
    | OForce r :: _ =>
      (* remove_port: DynamicStorageBuilder::open under the map lock *)
      let e := EAcc 2 B_MAP 0 KSwap NotAtomic NotAtomic 1 0 true in
      match cur g with
      | Some i => Some (g, goto l (RsLoad {| h_inc := i; h_own := false; h_role := r; h_id := opi l |} WForce), [e])
      | None => Some (g, finish l None, [e; ret_ev g C_NOEXIST])
      end
    | OIsConn k :: _ =>
      match nth k (hs l) None with
      | Some h =>
        let c := st_of g (h_inc h) in
        Some (g, finish l None,
              [EAcc 30 B_STATE (st_loc h) KLoad Relaxed Relaxed c 0 true; ret_ev g (bool_code (c =? CONNECTED))])
      | None => Some (g, finish l None, [])
      end
    end
  | CrLoad h p =>
    let c := st_of g (h_inc h) in
    Some (reserve_next g l h p c (EAcc 10 B_STATE (st_loc h) KLoad Relaxed Relaxed c 0 true))
  | CrCas h p c =>
    let x := get_inc g (h_inc h) in
    let new := N.lor c (rbit (h_role h)) in
    if i_st x =? c
    then Some (set_inc g (h_inc h) (set_holder x (h_role h) new (Some (t, h_id h))),
               goto l (CrOwn h p),
               [EAcc 11 B_STATE (st_loc h) KCas Relaxed Relaxed c new true])
    else Some (reserve_next g l h p (i_st x)
                 (EAcc 11 B_STATE (st_loc h) KCas Relaxed Relaxed (i_st x) new false))
  | CrFail h code =>
    (* the creator lost the race for its port (or an opener did): whoever is attached, or has
       marked the connection, is responsible for removing the storage *)
    Some (g, goto l (DrOwn (set_own h false) (WFail code)),
          [EAcc 14 B_OWN (own_loc t h) KStore Relaxed Relaxed 0 0 true])
  | CrOwn h p =>
    let e := EAcc 12 B_OWN (own_loc t h) KLoad Relaxed Relaxed (bool_code (h_own h)) 0 true in
    if h_own h then Some (g, goto l (CrRel h), [e])
    else match mismatch p (i_par (get_inc g (h_inc h))) with
         | None => Some (g, finish l (Some h), [e; ret_ev g C_OK])
         | Some code => Some (g, goto l (RsLoad h (WFail code)), [e])
         end
  | CrRel h =>
    Some (g, finish l (Some (set_own h false)),
          [EAcc 13 B_OWN (own_loc t h) KStore Relaxed Relaxed 0 0 true; ret_ev g C_OK])
  | RsLoad h w => Some (rs_load g l h w)
  | RsCas h w c =>
    let x := get_inc g (h_inc h) in
    let new := remove_new c (h_role h) in
    if i_st x =? c
    then
      let x' := if N.land c (rbit (h_role h)) =? 0
                then set_holder x (h_role h) new (holder x (h_role h))
                else set_holder x (h_role h) new None in
      let g' := if N.land c (rbit (h_role h)) =? 0 then set_inc g (h_inc h) x'
                else steal (set_inc g (h_inc h) x') (holder x (h_role h)) (t, h_id h) in
      let e := EAcc 21 B_STATE (st_loc h) KCas Relaxed Relaxed c new true in
      if new =? MARKED
      then Some (if c =? MARKED then flag_marked g' else g', goto l (Acq h w), [e])
      else Some (g', goto l (DrOwn h w), [e])
    else Some (g, goto l (RsCas h w (i_st x)),
               [EAcc 21 B_STATE (st_loc h) KCas Relaxed Relaxed (i_st x) new false])
  | Acq h w =>
    Some (g, goto l (DrOwn (set_own h true) w),
          [EAcc 22 B_OWN (own_loc t h) KStore Relaxed Relaxed 0 1 true])
  | DrOwn h w =>
    let e := EAcc 23 B_OWN (own_loc t h) KLoad Relaxed Relaxed (bool_code (h_own h)) 0 true in
    if h_own h then Some (g, goto l (DrRm h w), [e])
    else Some (g, finish l None, [e; ret_ev g (why_code w)])
  | DrRm h w =>
    (* NamedConceptMgmt::remove_cfg(name): removes whatever the NAME refers to now *)
    let u := match cur g with
             | Some i => {| u_t := t; u_hinc := h_inc h; u_rm := Some i; u_st := st_of g i;
                            u_att := attached (get_inc g i) |}
             | None => {| u_t := t; u_hinc := h_inc h; u_rm := None; u_st := 0; u_att := false |}
             end in
    let g' := {| cur := None; incs := incs g; unl := unl g ++ [u];
                 saw_marked := saw_marked g; stolen := stolen g |} in
    Some (g', finish l None,
          [EAcc 3 B_MAP 0 KSwap NotAtomic NotAtomic (match cur g with Some _ => 2 | None => 1 end) 0 true;
           ret_ev g' (why_code w)])
  end.

Definition g_init : gst :=
  {| cur := None; incs := []; unl := []; saw_marked := false; stolen := [] |}.
Definition l_init (p : list op) : lst := {| prog := p; opi := 0; at_pc := Idle; hs := [] |}.
Definition init (progs : nat -> list op) : cfg gst lst := (g_init, fun t => l_init (progs t)).

(* ---------- reference spec: what the property says about an unlink ---------- *)
(* a successful unlink is GOOD when the handle removes the incarnation it has mapped, that
   incarnation is marked for destruction, and no role is attached to it *)
Definition unlink_good (u : unlink_ev) : bool :=
  match u_rm u with
  | None => true     (* nothing removed: remove_cfg returned false *)
  | Some i => Nat.eqb i (u_hinc u) && (u_st u =? MARKED) && negb (u_att u)
  end.
Definition removed (g : gst) : list nat :=
  flat_map (fun u => match u_rm u with Some i => [i] | None => [] end) (unl g).
