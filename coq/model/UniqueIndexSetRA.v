(* Release/acquire view model of UniqueIndexSet (C09, quantifier "weak-memory stale reads").
   The sequentially consistent step model model/UniqueIndexSet.v is kept as it is; this file
   wraps it with what C11 adds for this algorithm:
     * the head word has a modification order: `vhist`, the list of all values it ever had
       (vhist[j] = the value after j successful compare-exchanges; every write is a
       read-modify-write).  Every LOAD of the head and every FAILED compare-exchange may
       return a stale value: any vhist[j] with j between the last position this thread
       observed or wrote (coherence, `vspos`) and the current one; a failed compare-exchange
       additionally returns a value different from the expected one (a position after the one
       the expected value was read at).  The staleness is taken from an oracle stream.  A
       SUCCESSFUL compare-exchange reads the current value.
     * an acquire read of vhist[j] synchronises with every release compare-exchange that wrote
       a position <= j (release sequence of read-modify-writes); the thread's acquired view
       is `vapos`.
     * next[] cells are plain memory.  The read of next[head(ov)] in acquire is USED when the
       following compare-exchange succeeds.  It is ordered after the last write of that cell
       iff the cell's index is free, and its last release happened at a position the thread
       has acquired (or was done by the thread itself); this is recorded in `vfresh` at the
       read and charged to `vrace_used` at the successful compare-exchange.  (The read whose
       compare-exchange fails is the speculative read of c09_uis_no_cell_conflict_refuted.)
   The six orderings (load, compare-exchange success / failure of acquire_raw_index and of
   release_raw_index) are parameters; `uis_ords_code` is the table of the code, pinned by the G1
   trace comparison.  Only a RELEASE compare-exchange of release_raw_index publishes the
   releasing thread's writes of the next cell (acq_view). *)
From V Require Import model.Base model.Conc model.Events model.UniqueIndexSet.
Open Scope N_scope.

Record vords := {
  v_aload : ord;                      (* site 10: acquire_raw_index, head.load *)
  v_acas : ord; v_acas_fail : ord;    (* site 12: acquire_raw_index, compare_exchange *)
  v_rload : ord;                      (* site 20: release_raw_index, head.load *)
  v_rcas : ord; v_rcas_fail : ord     (* site 22: release_raw_index, compare_exchange *)
}.
Definition uis_ords_code : vords :=
  {| v_aload := Acquire; v_acas := AcqRel; v_acas_fail := Acquire;
     v_rload := Acquire; v_rcas := AcqRel; v_rcas_fail := Acquire |}.

Definition is_acq (o : ord) : bool := match o with Acquire | AcqRel | SeqCst => true | _ => false end.
Definition is_rel (o : ord) : bool := match o with Release | AcqRel | SeqCst => true | _ => false end.

Record vlst := {
  vsc : ulst;
  vspos : N;      (* coherence: last position of the head's modification order observed or written *)
  vapos : N;      (* largest position acquired *)
  vfresh : bool   (* the last read of a next cell was ordered after the cell's last write *)
}.

Record vgst := {
  vg : ugst;
  vhist : list N;                           (* vhist[j] = head word after j updates *)
  vlastrel : list N;                        (* index -> position of the compare-exchange that released it last *)
  vrelby : list (option Datatypes.nat);     (* index -> thread that released it last *)
  voracle : list N;
  vrace_used : bool
}.

Definition next_choice (g : vgst) : N * list N :=
  match voracle g with [] => (0, []) | k :: t => (k, t) end.
Definition stale (cur lo k : N) : N := cur - N.min k (cur - lo).

Definition set_v (l : vlst) (s : ulst) (sp ap : N) (f : bool) : vlst :=
  {| vsc := s; vspos := sp; vapos := ap; vfresh := f |}.
Definition set_vg (g : vgst) (u : ugst) (h : list N) (lr : list N) (rb : list (option Datatypes.nat)) (orc : list N) (r : bool) : vgst :=
  {| vg := u; vhist := h; vlastrel := lr; vrelby := rb; voracle := orc; vrace_used := r |}.

(* acquire's loop head with an explicitly given position of the observed head word *)
Definition acq_dispatch_at (g : ugst) (l : ulst) (p : list uop) (ov u0 : N) (e : ev) : ugst * ulst * list ev :=
  if N.leb (ucap g) (hd_head ov) then (g, set_u l p UIdle (uheld l), [e; ERet RC_OUT_OF_INDICES])
  else if N.eqb (hd_borrowed ov) LOCK_ACQUIRE then (g, set_u l p UIdle (uheld l), [e; ERet RC_IS_LOCKED])
  else (g, set_u l p (AcqDist ov u0) (uheld l), [e]).

Definition acq_view (Q : vords) (o : ord) (l : vlst) (j : N) : N :=
  if is_acq o && is_rel (v_rcas Q) then N.max (vapos l) j else vapos l.

(* is the plain read of next[i] by thread t ordered after the last write of that cell? *)
Definition read_fresh (g : vgst) (t : nat) (l : vlst) (i : N) : bool :=
  match nthN (uown (vg g)) i None with
  | Some _ => false
  | None => N.leb (nthN (vlastrel g) i 0) (vapos l) ||
            match nthN (vrelby g) i None with Some t' => Nat.eqb t t' | None => true end
  end.

(* a step of the sequentially consistent model that involves no read of the head *)
Definition lift (g : vgst) (l : vlst) (r : option (ugst * ulst * list ev)) : option (vgst * vlst * list ev) :=
  match r with
  | Some (u', s', es) => Some (set_vg g u' (vhist g) (vlastrel g) (vrelby g) (voracle g) (vrace_used g),
                               set_v l s' (vspos l) (vapos l) (vfresh l), es)
  | None => None
  end.

Definition vstep (Q : vords) (t : nat) (g : vgst) (l : vlst) : option (vgst * vlst * list ev) :=
  let u := vg g in let s := vsc l in
  match upc_of s with
  | UIdle =>
    match uprog s with
    | UAcq :: p =>
      let '(k, orc) := next_choice g in
      let j := stale (updates u) (vspos l) k in
      let ov := nthN (vhist g) j 0 in
      let '(u', s', es) := acq_dispatch_at u s p ov j (EAcc 10 B_HEAD 0 KLoad (v_aload Q) (v_aload Q) ov 0 true) in
      Some (set_vg g u' (vhist g) (vlastrel g) (vrelby g) orc (vrace_used g),
            set_v l s' j (acq_view Q (v_aload Q) l j) (vfresh l), es)
    | URel m front :: p =>
      match (if front then uheld s else rev (uheld s)) with
      | [] => Some (g, set_v l (set_u s p UIdle (uheld s)) (vspos l) (vapos l) (vfresh l), [])
      | i :: _ =>
        let '(k, orc) := next_choice g in
        let j := stale (updates u) (vspos l) k in
        let ov := nthN (vhist g) j 0 in
        let h' := if front then tl (uheld s) else removelast (uheld s) in
        Some (set_vg g u (vhist g) (vlastrel g) (vrelby g) orc (vrace_used g),
              set_v l (set_u s p (RelDist i m ov j) h') j (acq_view Q (v_rload Q) l j) (vfresh l),
              [EAcc 20 B_HEAD 0 KLoad (v_rload Q) (v_rload Q) ov 0 true])
      end
    | UBorrowed :: p =>
      let '(k, orc) := next_choice g in
      let j := stale (updates u) (vspos l) k in
      let b := hd_borrowed (nthN (vhist g) j 0) in
      Some (set_vg g u (vhist g) (vlastrel g) (vrelby g) orc (vrace_used g),
            set_v l (set_u s p UIdle (uheld s)) j (vapos l) (vfresh l),
            [EAcc 30 B_HEAD 0 KLoad Relaxed Relaxed (nthN (vhist g) j 0) 0 true;
             ERet (rc_borrowed (if N.eqb b LOCK_ACQUIRE then 0 else b))])
    | UIsLocked :: p =>
      let '(k, orc) := next_choice g in
      let j := stale (updates u) (vspos l) k in
      Some (set_vg g u (vhist g) (vlastrel g) (vrelby g) orc (vrace_used g),
            set_v l (set_u s p UIdle (uheld s)) j (vapos l) (vfresh l),
            [EAcc 31 B_HEAD 0 KLoad Relaxed Relaxed (nthN (vhist g) j 0) 0 true;
             ERet (rc_is_locked (N.eqb (hd_borrowed (nthN (vhist g) j 0)) LOCK_ACQUIRE))])
    | [] => None
    end
  | AcqRead ov u0 =>
    match ustep t u s with
    | Some (u', s', es) =>
      Some (set_vg g u' (vhist g) (vlastrel g) (vrelby g) (voracle g) (vrace_used g),
            set_v l s' (vspos l) (vapos l) (read_fresh g t l (hd_head ov)), es)
    | None => None
    end
  | AcqCas ov nx u0 =>
    if N.eqb (uhead u) ov
    then match ustep t u s with
         | Some (u', s', es) =>
           Some (set_vg g u' (vhist g ++ [uhead u']) (vlastrel g) (vrelby g) (voracle g) (vrace_used g || negb (vfresh l)),
                 set_v l s' (updates u') (acq_view Q (v_acas Q) l (updates u)) (vfresh l), es)
         | None => None
         end
    else let '(k, orc) := next_choice g in
         let j := stale (updates u) (N.max (vspos l) (u0 + 1)) k in
         let ov' := nthN (vhist g) j 0 in
         let new := hd_value nx (aba_succ (hd_aba ov)) (hd_borrowed ov + 1) in
         let '(u', s', es) := acq_dispatch_at u s (uprog s) ov' j (EAcc 12 B_HEAD 0 KCas (v_acas Q) (v_acas_fail Q) ov' new false) in
         Some (set_vg g u' (vhist g) (vlastrel g) (vrelby g) orc (vrace_used g),
               set_v l s' j (acq_view Q (v_acas_fail Q) l j) (vfresh l), es)
  | RelCas i m ov u0 =>
    if N.eqb (uhead u) ov
    then match ustep t u s with
         | Some (u', s', es) =>
           Some (set_vg g u' (vhist g ++ [uhead u']) (updN (vlastrel g) i (updates u')) (updN (vrelby g) i (Some t))
                        (voracle g) (vrace_used g),
                 set_v l s' (updates u') (acq_view Q (v_rcas Q) l (updates u)) (vfresh l), es)
         | None => None
         end
    else match rel_borrowed m (hd_borrowed ov) with
         | Panic => None
         | Val b' =>
           let '(k, orc) := next_choice g in
           let j := stale (updates u) (N.max (vspos l) (u0 + 1)) k in
           let ov' := nthN (vhist g) j 0 in
           let new := hd_value i (aba_succ (hd_aba ov)) b' in
           Some (set_vg g u (vhist g) (vlastrel g) (vrelby g) orc (vrace_used g),
                 set_v l (set_u s (uprog s) (RelDist i m ov' j) (uheld s)) j (acq_view Q (v_rcas_fail Q) l j) (vfresh l),
                 [EAcc 22 B_HEAD 0 KCas (v_rcas Q) (v_rcas_fail Q) ov' new false])
         end
  | _ => lift g l (ustep t u s)
  end.

Definition vg_init (c dist : N) (orc : list N) : vgst :=
  {| vg := ug_init c dist; vhist := [0]; vlastrel := repeat 0%N (N.to_nat c);
     vrelby := repeat None (N.to_nat c); voracle := orc; vrace_used := false |}.
Definition vl_init (p : list uop) : vlst := {| vsc := ul_init p; vspos := 0; vapos := 0; vfresh := true |}.
Definition vinit (c dist : N) (orc : list N) (progs : nat -> list uop) : cfg vgst vlst :=
  (vg_init c dist orc, fun t => vl_init (progs t)).

(* the sequentially consistent configuration underneath *)
Definition proj (c : cfg vgst vlst) : cfg ugst ulst := (vg (fst c), fun t => vsc (snd c t)).
