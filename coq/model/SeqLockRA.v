(* Release/acquire view model of UnrestrictedAtomic (the two-cell sequence lock behind every
   blackboard entry), wrapping the fine step model model/SeqLock.v:
     * write_cell is modified by read-modify-writes only (the writer's fetch_add, the readers'
       validating compare-exchange w -> w).  A reader's LOAD of it and its FAILED
       compare-exchange may return a stale value: any value between the last one the thread
       observed (coherence, `sseen`) and the current one, a failed compare-exchange one that
       differs from the expected value; the choice comes from an oracle stream.  A successful
       compare-exchange reads the current value.
     * an acquire read of value w synchronises with the release fetch_add that produced w (or
       with a later read-modify-write of its release sequence): the bytes of version w - 1,
       written before that fetch_add, are visible (`sapos` >= w).
     * the data cells are plain memory.  USED accesses:
         - the byte copy of a load that its compare-exchange VALIDATES: ordered after the
           writer's bytes iff the reader had acquired w when it copied (`sfresh`, charged to
           `srace_used` at the successful compare-exchange);
         - the writer's bytes into cell w % 2 while write_cell = w re-use the cell that loads
           validated at w - 1 copied from: ordered after those copies iff the validating
           compare-exchange is a release and the fetch_add (w - 1 -> w) an acquire (every
           validation at w - 1 precedes that fetch_add in the modification order and every
           write is a read-modify-write, so the release sequence reaches it).
       (A copy whose compare-exchange fails is discarded; the lapped reader's race with the
       writer is the inherent one of a sequence lock over plain memory.)
   Orderings are parameters; `sl_ords_code` is the table of the code (after the repair 0bff03d),
   pinned by the G1 trace comparison. *)
From V Require Import model.Base model.Conc model.Events model.SeqLock.
Open Scope N_scope.

Record sords := {
  s_rload : ord;                     (* site 30: load(): write_cell.load *)
  s_rcas : ord; s_rcas_fail : ord;   (* site 31: load(): compare_exchange(w, w) *)
  s_fadd : ord                       (* sites 12 / 22: fetch_add(1) *)
}.
Definition sl_ords_code : sords :=
  {| s_rload := Acquire; s_rcas := AcqRel; s_rcas_fail := SeqCst; s_fadd := AcqRel |}.

Definition is_acq (o : ord) : bool := match o with Acquire | AcqRel | SeqCst => true | _ => false end.
Definition is_rel (o : ord) : bool := match o with Release | AcqRel | SeqCst => true | _ => false end.

Record slst := {
  ssc : lst;
  sseen : N;      (* coherence: last value of write_cell observed or written by this thread *)
  sapos : N;      (* largest value of write_cell acquired from a release fetch_add *)
  sfresh : bool   (* the copy in progress started with its version acquired *)
}.

Record sgst := {
  sg : gst;
  soracle : list N;
  srace_used : bool;
  svalidated : list (N * nat)     (* ghost: (write_cell value, thread) of every validated load *)
}.

Definition next_choice (g : sgst) : N * list N :=
  match soracle g with [] => (0, []) | k :: t => (k, t) end.
Definition stale (cur lo k : N) : N := cur - N.min k (cur - lo).

Definition set_s (l : slst) (s : lst) (se ap : N) (f : bool) : slst :=
  {| ssc := s; sseen := se; sapos := ap; sfresh := f |}.
Definition set_sg (g : sgst) (u : gst) (orc : list N) (r : bool) (v : list (N * nat)) : sgst :=
  {| sg := u; soracle := orc; srace_used := r; svalidated := v |}.

Definition acq_view (Q : sords) (o : ord) (l : slst) (w : N) : N :=
  if is_acq o && is_rel (s_fadd Q) then N.max (sapos l) w else sapos l.

(* some other thread validated a load at value w *)
Definition validated_by_other (g : sgst) (t : nat) (w : N) : bool :=
  existsb (fun x => N.eqb (fst x) w && negb (Nat.eqb (snd x) t)) (svalidated g).

(* the writer starts to overwrite the cell that loads validated at w - 1 copied from *)
Definition write_racy (Q : sords) (g : sgst) (t : nat) (w : N) : bool :=
  negb (is_acq (s_fadd Q) && is_rel (s_rcas Q)) && validated_by_other g t (w - 1).

Definition lift (g : sgst) (l : slst) (se : N) (r : option (gst * lst * list ev)) : option (sgst * slst * list ev) :=
  match r with
  | Some (u', s', es) => Some (set_sg g u' (soracle g) (srace_used g) (svalidated g), set_s l s' se (sapos l) (sfresh l), es)
  | None => None
  end.

Definition sstep (Q : sords) (t : nat) (g : sgst) (l : slst) : option (sgst * slst * list ev) :=
  let u := sg g in let s := ssc l in
  match at_pc s with
  | Idle =>
    match prog s with
    | OLoad :: p =>
      let '(k, orc) := next_choice g in
      let w := stale (wc u) (sseen l) k in
      let e := EAcc 30 B_WC 0 KLoad (s_rload Q) (s_rload Q) w 0 true in
      let ap := acq_view Q (s_rload Q) l w in
      if N.eqb w 0
      then Some (set_sg g u orc (srace_used g) (svalidated g), set_s l (set_lst s [] Idle) w ap (sfresh l), [e; ERet PANIC])
      else Some (set_sg g u orc (srace_used g) (svalidated g),
                 set_s l (set_lst s p (r_next w w [] 0 (vsize u))) w ap (N.leb w ap), [e])
    | _ => lift g l (sseen l) (fstep t u s)
    end
  | WCell m v w =>
    match fstep t u s with
    | Some (u', s', es) =>
      Some (set_sg g u' (soracle g) (srace_used g || write_racy Q g t w) (svalidated g),
            set_s l s' (sseen l) (sapos l) (sfresh l), es)
    | None => None
    end
  | WFadd m v w =>
    match fstep t u s with
    | Some (u', s', es) =>
      Some (set_sg g u' (soracle g) (srace_used g) (svalidated g), set_s l s' (wc u') (sapos l) (sfresh l), es)
    | None => None
    end
  | RCas w0 w buf =>
    if N.eqb (wc u) w
    then match fstep t u s with
         | Some (u', s', es) =>
           Some (set_sg g u' (soracle g) (srace_used g || negb (sfresh l)) ((w, t) :: svalidated g),
                 set_s l s' w (sapos l) (sfresh l), es)
         | None => None
         end
    else let '(k, orc) := next_choice g in
         let v := stale (wc u) (N.max (sseen l) (w + 1)) k in
         let e := EAcc 31 B_WC 0 KCas (s_rcas Q) (s_rcas_fail Q) v w false in
         let ap := acq_view Q (s_rcas_fail Q) l v in
         if N.eqb v 0
         then Some (set_sg g u orc (srace_used g) (svalidated g), set_s l (set_lst s [] Idle) v ap (sfresh l), [e; ERet PANIC])
         else Some (set_sg g u orc (srace_used g) (svalidated g),
                    set_s l (set_lst s (prog s) (r_next w0 v [] 0 (vsize u))) v ap (N.leb v ap), [e])
  | _ => lift g l (sseen l) (fstep t u s)
  end.

Definition sg_init (n : nat) (v0 : value) (orc : list N) : sgst :=
  {| sg := g_init n v0; soracle := orc; srace_used := false; svalidated := [] |}.
Definition sll_init (p : list sop) : slst := {| ssc := l_init p; sseen := 1; sapos := 1; sfresh := true |}.
Definition sinit (n : nat) (v0 : value) (orc : list N) (progs : nat -> list sop) : cfg sgst slst :=
  (sg_init n v0 orc, fun t => sll_init (progs t)).

Definition proj (c : cfg sgst slst) : cfg gst lst := (sg (fst c), fun t => ssc (snd c t)).
