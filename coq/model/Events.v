(* Event vocabulary shared by all step models that are tied to the implementation through
   the instrumented atomics drop-in (G1): one EAcc per shared-memory access, in exactly the
   shape the gate logs it, and one ERet when an API operation returns. *)
From V Require Import model.Base.

Inductive ord := Relaxed | Release | Acquire | AcqRel | SeqCst | NotAtomic.
Inductive akind := KLoad | KStore | KCas | KSwap | KFetchAdd | KFetchSub | KFetchOr | KFetchAnd | KCell.

Inductive ev :=
| EAcc (site : N)            (* access site: which line of the Rust function (model pc tag) *)
       (base idx : N)        (* location: structure field, element index *)
       (k : akind)
       (o ofail : ord)       (* success / failure ordering (ofail = o for non-CAS) *)
       (rd wr : N)           (* value read, value written (0 where not applicable) *)
       (ok : bool)           (* CAS success; true otherwise *)
| ERet (code : N).           (* the running API operation returns; code encodes the result *)

Definition opt_code (o : option N) : N := match o with None => 0 | Some v => v + 1 end.
Definition bool_code (b : bool) : N := if b then 1 else 0.
