(* C14 -- position independence: the self-relative pointer and a concrete MEMORY IMAGE model
   of one relocatable container (header with a RelocatablePointer + payload cells in one flat
   memory).  Executable definitions only; proofs in proofs/RelPtrProofs.v.

   Transcribes
     iceoryx2-bb/elementary/src/relocatable_pointer.rs   RelocatablePointer::{init, as_ptr}
     iceoryx2-bb/elementary/src/owning_pointer.rs         OwningPointer::as_ptr   (contrast)
     iceoryx2-bb/elementary/src/sync_pointer.rs           SyncPointer::as_ptr     (contrast)
     iceoryx2-bb/container/src/queue.rs                   MetaQueue<T, GenericRelocatablePointer>
   Addresses and machine words are Z.  Memory is word addressed: one header field = one word,
   one payload element = one word (the byte sizes of the fields do not matter for the
   statement: only WHICH address an access resolves to, as a function of where the header is). *)
From V Require Import model.Base model.RingQueue.
Open Scope Z_scope.

(* ---------------------------------------------------------------------------------------
   RelocatablePointer<T> { distance: AtomicIsize }
     init(&self, ptr):  distance = ptr as isize - (self as *const Self) as isize
     as_ptr(&self):     base = self as *const Self; base.wrapping_add_signed(distance)
   `self_addr` is the address of the pointer OBJECT (the field inside the header), which is
   what moves when the block is mapped or copied somewhere else. *)
Definition rp_init (self_addr target : Z) : Z := target - self_addr.
Definition rp_as_ptr (self_addr distance : Z) : Z := self_addr + distance.

(* the same with the usize wrap-around that `wrapping_add_signed` has *)
Definition wrap64 (z : Z) : Z := z mod 2 ^ 64.
Definition rp_as_ptr_w (self_addr distance : Z) : Z := wrap64 (self_addr + distance).

(* OwningPointer<T> { ptr: raw mut T, .. } / SyncPointer<T> { raw mut T } / NonNull<T>:
     as_ptr(&self) = self.ptr      -- the stored absolute address, wherever self lives *)
Definition ap_init (self_addr target : Z) : Z := target.
Definition ap_as_ptr (self_addr stored : Z) : Z := stored.

(* ---------------------------------------------------------------------------------------
   Flat memory and the accesses a container method performs. *)
Definition mem := Z -> Z.
Definition mupd (m : mem) (a v : Z) : mem := fun x => if Z.eqb x a then v else m x.

Inductive acc :=
| Hdr (k : Z)           (* field k of the header (`self.field`): address h + k *)
| Rel (k i : Z)         (* `self.field_k.as_ptr().add(i)` with field k a RelocatablePointer *)
| Abs (k i : Z).        (* the same with field k an absolute pointer (OwningPointer): contrast only *)

(* the address an access resolves to when the header lives at h *)
Definition resolve (h : Z) (m : mem) (a : acc) : Z :=
  match a with
  | Hdr k => h + k
  | Rel k i => rp_as_ptr (h + k) (m (h + k)) + i
  | Abs k i => ap_as_ptr (h + k) (m (h + k)) + i
  end.

(* a method body: a tree of reads and writes; the continuation of a read may branch on the value *)
Inductive prog (A : Type) :=
| Ret (a : A)
| Rd (a : acc) (k : Z -> prog A)
| Wr (a : acc) (v : Z) (k : prog A).
Arguments Ret {A} a.
Arguments Rd {A} a k.
Arguments Wr {A} a v k.

Fixpoint exec {A} (h : Z) (m : mem) (p : prog A) : mem * A :=
  match p with
  | Ret a => (m, a)
  | Rd a k => exec h m (k (m (resolve h m a)))
  | Wr a v k => exec h (mupd m (resolve h m a) v) k
  end.

Fixpoint bind {A B} (p : prog A) (f : A -> prog B) : prog B :=
  match p with
  | Ret a => f a
  | Rd a k => Rd a (fun z => bind (k z) f)
  | Wr a v k => Wr a v (bind k f)
  end.

(* a history: one program per operation, all on the header at h *)
Fixpoint run {O A} (prg : O -> prog A) (h : Z) (m : mem) (ops : list O) : mem * list A :=
  match ops with
  | [] => (m, [])
  | o :: t =>
    let (m1, r) := exec h m (prg o) in
    let (m2, rs) := run prg h m1 t in
    (m2, r :: rs)
  end.

(* ---------------------------------------------------------------------------------------
   Which addresses a program touches.  P = the set of addresses of the block that is mapped /
   copied.  An access through a relative pointer needs the pointer field itself inside P (it
   is read); an access through an absolute pointer is never allowed. *)
Definition acc_ok (P : Z -> Prop) (h : Z) (a : acc) : Prop :=
  match a with
  | Hdr _ => True
  | Rel k _ => P (h + k)
  | Abs _ _ => False
  end.

Fixpoint safe {A} (P : Z -> Prop) (h : Z) (m : mem) (p : prog A) : Prop :=
  match p with
  | Ret _ => True
  | Rd a k => acc_ok P h a /\ P (resolve h m a) /\ safe P h m (k (m (resolve h m a)))
  | Wr a v k => acc_ok P h a /\ P (resolve h m a) /\ safe P h (mupd m (resolve h m a) v) k
  end.

Fixpoint safe_run {O A} (P : Z -> Prop) (prg : O -> prog A) (h : Z) (m : mem) (ops : list O) : Prop :=
  match ops with
  | [] => True
  | o :: t => safe P h m (prg o) /\ safe_run P prg h (fst (exec h m (prg o))) t
  end.

(* no access through an absolute pointer, whatever is read *)
Fixpoint rel_only {A} (p : prog A) : Prop :=
  match p with
  | Ret _ => True
  | Rd a k => (match a with Abs _ _ => False | _ => True end) /\ forall z, rel_only (k z)
  | Wr a _ k => (match a with Abs _ _ => False | _ => True end) /\ rel_only k
  end.

(* the image at the new place: on the copied block the new memory holds, delta further, what the
   old one held (memcpy); nothing is said about the rest of the new memory *)
Definition agree (P : Z -> Prop) (delta : Z) (m m' : mem) : Prop :=
  forall x, P x -> m' (x + delta) = m x.

Definition in_block (b n : Z) (x : Z) : Prop := b <= x < b + n.

(* ---------------------------------------------------------------------------------------
   MetaQueue<T, GenericRelocatablePointer> as a memory image (queue.rs), field for field:
     word 0  data_ptr.distance      word 1  start     word 2  len
     word 3  capacity               word 4  is_initialized
   and `capacity` payload cells reached only through data_ptr.  Same branch order as
   model/RingQueue.v (which is tied to the real code by the C16 and C14 harnesses); elements
   are numbers. *)
Definition F_PTR := 0.
Definition F_START := 1.
Definition F_LEN := 2.
Definition F_CAP := 3.
Definition F_INIT := 4.
Definition HDR_WORDS := 5.

(* RelocatableContainer::new_uninit(c) followed by init(allocator) where the allocator hands
   out the address p for the payload: the only place an absolute address is ever seen; it is
   turned into a distance immediately *)
Definition iq_init (h p : Z) (c : N) (m : mem) : mem :=
  mupd (mupd (mupd (mupd (mupd m (h + F_PTR) (rp_init (h + F_PTR) p))
    (h + F_START) 0) (h + F_LEN) 0) (h + F_CAP) (Z.of_N c)) (h + F_INIT) 1.

(* unchecked_push: index = start % capacity; write; start += 1; len += 1 *)
Definition iq_unchecked_push (v : N) : prog (res unit) :=
  Rd (Hdr F_CAP) (fun cap => if cap =? 0 then Ret Panic else
  Rd (Hdr F_START) (fun start => Rd (Hdr F_LEN) (fun len =>
  Wr (Rel F_PTR (start mod cap)) (Z.of_N v)
  (Wr (Hdr F_START) (start + 1)
  (Wr (Hdr F_LEN) (len + 1) (Ret (Val tt))))))).

(* pop_impl *)
Definition iq_pop : prog (res (option N)) :=
  Rd (Hdr F_LEN) (fun len => if len =? 0 then Ret (Val None) else
  Rd (Hdr F_CAP) (fun cap => if cap =? 0 then Ret Panic else
  Rd (Hdr F_START) (fun start =>
  Wr (Hdr F_LEN) (len - 1)
  (Rd (Rel F_PTR ((start - len) mod cap)) (fun v => Ret (Val (Some (Z.to_N v)))))))).

(* peek_impl *)
Definition iq_peek : prog (res (option N)) :=
  Rd (Hdr F_LEN) (fun len => if len =? 0 then Ret (Val None) else
  Rd (Hdr F_CAP) (fun cap => if cap =? 0 then Ret Panic else
  Rd (Hdr F_START) (fun start =>
  Rd (Rel F_PTR ((start - len) mod cap)) (fun v => Ret (Val (Some (Z.to_N v))))))).

(* push_impl *)
Definition iq_push (v : N) : prog (res bool) :=
  Rd (Hdr F_LEN) (fun len => Rd (Hdr F_CAP) (fun cap =>
  if len =? cap then Ret (Val false) else
  bind (iq_unchecked_push v) (fun r => match r with Val _ => Ret (Val true) | Panic => Ret Panic end))).

(* push_with_overflow_impl *)
Definition iq_push_overflow (v : N) : prog (res (option N)) :=
  Rd (Hdr F_CAP) (fun cap => if cap =? 0 then Ret (Val (Some v)) else
  Rd (Hdr F_LEN) (fun len =>
  if len =? cap then
    bind iq_pop (fun r => match r with
      | Panic => Ret Panic
      | Val old => bind (iq_unchecked_push v) (fun r2 => match r2 with Val _ => Ret (Val old) | Panic => Ret Panic end)
      end)
  else
    bind (iq_unchecked_push v) (fun r2 => match r2 with Val _ => Ret (Val None) | Panic => Ret Panic end))).

(* get(index) *)
Definition iq_get (i : N) : prog (res N) :=
  Rd (Hdr F_LEN) (fun len => if len <=? Z.of_N i then Ret Panic else
  Rd (Hdr F_CAP) (fun cap => if cap =? 0 then Ret Panic else
  Rd (Hdr F_START) (fun start =>
  Rd (Rel F_PTR ((start - len + Z.of_N i) mod cap)) (fun v => Ret (Val (Z.to_N v)))))).

(* clear_impl: while pop().is_some() {} *)
Fixpoint iq_clear_fuel (fuel : nat) (dropped : list N) : prog (res (list N)) :=
  match fuel with
  | O => Ret (Val dropped)
  | S f =>
    bind iq_pop (fun r => match r with
      | Panic => Ret Panic
      | Val None => Ret (Val dropped)
      | Val (Some v) => iq_clear_fuel f (dropped ++ [v])
      end)
  end.
Definition iq_clear : prog (res (list N)) :=
  Rd (Hdr F_LEN) (fun len => iq_clear_fuel (S (Z.to_nat len)) []).

(* one API call on the image; operations and observations are those of model/RingQueue.v *)
Definition iq_prog (o : qop) : prog qobs :=
  match o with
  | QPush v => bind (iq_push v) (fun r => Ret (match r with Val b => OBool b | Panic => OPanic end))
  | QPushOverflow v => bind (iq_push_overflow v) (fun r => Ret (match r with Val x => OOpt x | Panic => OPanic end))
  | QPop => bind iq_pop (fun r => Ret (match r with Val x => OOpt x | Panic => OPanic end))
  | QPeek => bind iq_peek (fun r => Ret (match r with Val x => OOpt x | Panic => OPanic end))
  | QGet i => bind (iq_get i) (fun r => Ret (match r with Val x => ONum x | Panic => OPanic end))
  | QClear => bind iq_clear (fun r => Ret (match r with Val l => OList l | Panic => OPanic end))
  | QLen => Rd (Hdr F_LEN) (fun len => Ret (ONum (Z.to_N len)))
  end.

Definition iq_run (h : Z) (m : mem) (ops : list qop) : mem * list qobs := run iq_prog h m ops.

(* the ring queue record that an image denotes (abstraction used to tie the image to
   model/RingQueue.v): header words, and the payload cells read through the relative pointer *)
Definition iq_abs (h : Z) (m : mem) : rq :=
  {| start := Z.to_N (m (h + F_START));
     len := Z.to_N (m (h + F_LEN));
     cap := Z.to_N (m (h + F_CAP));
     data := map (fun i => Z.to_N (m (rp_as_ptr (h + F_PTR) (m (h + F_PTR)) + Z.of_nat i)))
                 (seq 0 (Z.to_nat (m (h + F_CAP)))) |}.

(* the same queue with an OwningPointer in field 0 (queue.rs `Queue<T>`): get through the
   absolute pointer -- used only to show that the relocation theorem is not vacuous *)
Definition aq_get0 : prog Z := Rd (Abs F_PTR 0) (fun v => Ret v).
