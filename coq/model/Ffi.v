(* C18 part A -- the FFI error tables: types of the generated tables (gen/FfiEnums.v), the
   lookup functions, and the predicates `total`, `injective`, `names_distinct`, `nonzero` both
   as Prop (what the theorems say) and as boolean functions (what vm_compute evaluates over
   the finite generated tables).  Hand-written; no proofs here (see proofs/FfiProofs.v).

   What the tables transcribe (iceoryx2-ffi/c/src/api/*.rs, read by harness/xlate):
     cenum    = one `#[repr(C)] pub enum iox2_*_e`: variants with their integer discriminants
                (implicit ones count up from the previous) and the string that
                `#[derive(CStrRepr)]` (iceoryx2-ffi/ffi-macros/src/lib.rs) produces per variant;
                ce_strfn = the exported `iox2_*_string` function that returns it.
     rmap     = one `impl IntoCInt for X`: every leaf of the Rust enum X taken from the enum
                DEFINITION (payload enums expanded recursively, non-enum payloads opaque `<T>`)
                together with what the `match` in `into_c_int` does on that leaf:
                TCode e v     -> returns `e::v as c_int`
                TDiverges why -> does not return a code (calls itself on the same value, panics). *)
From V Require Import model.Base.
From Coq Require Import String.
Import ListNotations.
Open Scope string_scope.

Record cvariant := mk_cvariant { cv_name : string; cv_code : Z; cv_str : string }.
Record cenum := mk_cenum { ce_name : string; ce_cstr : bool; ce_strfn : option string; ce_variants : list cvariant }.

Inductive target := TCode (cenum_name variant_name : string) | TDiverges (why : string).
Record leaf := mk_leaf { lf_top : string; lf_name : string; lf_target : target }.
Record rmap := mk_rmap { rm_name : string; rm_is_error : bool; rm_leaves : list leaf }.

(* ---- lookups ---- *)
Definition find_cenum (cs : list cenum) (n : string) : option cenum :=
  find (fun c => String.eqb (ce_name c) n) cs.
Definition find_cvariant (c : cenum) (v : string) : option cvariant :=
  find (fun x => String.eqb (cv_name x) v) (ce_variants c).

Definition target_cvariant (cs : list cenum) (t : target) : option cvariant :=
  match t with
  | TCode e v => match find_cenum cs e with Some c => find_cvariant c v | None => None end
  | TDiverges _ => None
  end.

(* the c_int that into_c_int returns on this leaf; None = it does not return one *)
Definition leaf_code (cs : list cenum) (l : leaf) : option Z :=
  option_map cv_code (target_cvariant cs (lf_target l)).
(* the printable name a C caller gets for that code (None: the C enum derives no CStrRepr) *)
Definition leaf_str (cs : list cenum) (l : leaf) : option string :=
  match lf_target l with
  | TCode e v =>
      match find_cenum cs e with
      | Some c => if ce_cstr c then option_map cv_str (find_cvariant c v) else None
      | None => None
      end
  | TDiverges _ => None
  end.
Definition leaf_cenum (l : leaf) : option string :=
  match lf_target l with TCode e _ => Some e | TDiverges _ => None end.
Definition leaf_cvariant (l : leaf) : string :=
  match lf_target l with TCode _ v => v | TDiverges _ => "" end.

(* ---- exception lists: (enum name, item name) pairs, hand-written next to the theorems ---- *)
Definition key := (string * string)%type.
Definition key_eqb (a b : key) : bool := String.eqb (fst a) (fst b) && String.eqb (snd a) (snd b).
Definition kmem (x : key) (l : list key) : bool := existsb (key_eqb x) l.
Definition smem (x : string) (l : list string) : bool := existsb (String.eqb x) l.

Definition is_some {A} (o : option A) : bool := match o with Some _ => true | None => false end.
Definition oz_eqb (a b : option Z) : bool :=
  match a, b with Some x, Some y => Z.eqb x y | _, _ => false end.

(* boolean NoDup over strings / integers *)
Fixpoint nodup_sb (l : list string) : bool :=
  match l with [] => true | x :: t => negb (smem x t) && nodup_sb t end.
Fixpoint nodup_zb (l : list Z) : bool :=
  match l with [] => true | x :: t => negb (existsb (Z.eqb x) t) && nodup_zb t end.

(* ---- the predicates ---- *)

(* total: every leaf of the Rust enum gets a code of an existing C variant, except the listed
   leaves (exc : (Rust enum, leaf name)) *)
Definition total (cs : list cenum) (exc : list key) (m : rmap) : Prop :=
  forall l, In l (rm_leaves m) -> ~ In (rm_name m, lf_name l) exc -> exists z, leaf_code cs l = Some z.
Definition total_b (cs : list cenum) (exc : list key) (m : rmap) : bool :=
  forallb (fun l => kmem (rm_name m, lf_name l) exc || is_some (leaf_code cs l)) (rm_leaves m).

(* all codes of one Rust enum come from one C enum (otherwise the bare c_int is ambiguous) *)
Definition single_cenum (m : rmap) : Prop :=
  forall a b ea eb, In a (rm_leaves m) -> In b (rm_leaves m) ->
    leaf_cenum a = Some ea -> leaf_cenum b = Some eb -> ea = eb.
Definition single_cenum_b (m : rmap) : bool :=
  forallb (fun a => forallb (fun b =>
    match leaf_cenum a, leaf_cenum b with Some ea, Some eb => String.eqb ea eb | _, _ => true end)
    (rm_leaves m)) (rm_leaves m).

(* injective at leaf granularity: two leaves with the same code are the same leaf, except
   when the shared C variant is listed (exc : (Rust enum, C variant)) *)
Definition injective_leaf (cs : list cenum) (exc : list key) (m : rmap) : Prop :=
  forall a b z, In a (rm_leaves m) -> In b (rm_leaves m) ->
    leaf_code cs a = Some z -> leaf_code cs b = Some z ->
    lf_name a = lf_name b \/ In (rm_name m, leaf_cvariant a) exc.
Definition injective_leaf_b (cs : list cenum) (exc : list key) (m : rmap) : bool :=
  forallb (fun a => forallb (fun b =>
    negb (oz_eqb (leaf_code cs a) (leaf_code cs b))
    || String.eqb (lf_name a) (lf_name b) || kmem (rm_name m, leaf_cvariant a) exc)
    (rm_leaves m)) (rm_leaves m).

(* injective at the granularity of the top-level variants of the Rust enum: the code determines
   the top-level variant *)
Definition injective_top (cs : list cenum) (exc : list key) (m : rmap) : Prop :=
  forall a b z, In a (rm_leaves m) -> In b (rm_leaves m) ->
    leaf_code cs a = Some z -> leaf_code cs b = Some z ->
    lf_top a = lf_top b \/ In (rm_name m, leaf_cvariant a) exc.
Definition injective_top_b (cs : list cenum) (exc : list key) (m : rmap) : bool :=
  forallb (fun a => forallb (fun b =>
    negb (oz_eqb (leaf_code cs a) (leaf_code cs b))
    || String.eqb (lf_top a) (lf_top b) || kmem (rm_name m, leaf_cvariant a) exc)
    (rm_leaves m)) (rm_leaves m).

(* nonzero: no leaf of an ERROR enum maps to IOX2_OK (exc : (Rust enum, C variant)) *)
Definition nonzero (ok : Z) (cs : list cenum) (exc : list key) (m : rmap) : Prop :=
  rm_is_error m = true ->
  forall l, In l (rm_leaves m) -> leaf_code cs l = Some ok -> In (rm_name m, leaf_cvariant l) exc.
Definition nonzero_b (ok : Z) (cs : list cenum) (exc : list key) (m : rmap) : bool :=
  negb (rm_is_error m) ||
  forallb (fun l => negb (oz_eqb (leaf_code cs l) (Some ok)) || kmem (rm_name m, leaf_cvariant l) exc) (rm_leaves m).

(* names of one C enum: pairwise distinct and none empty (only for enums that derive CStrRepr;
   exc : names of C enums) *)
Definition names_distinct (exc : list string) (c : cenum) : Prop :=
  ce_cstr c = true -> ~ In (ce_name c) exc ->
  NoDup (map cv_str (ce_variants c)) /\ (forall v, In v (ce_variants c) -> cv_str v <> "").
Definition names_distinct_b (exc : list string) (c : cenum) : bool :=
  negb (ce_cstr c) || smem (ce_name c) exc ||
  (nodup_sb (map cv_str (ce_variants c)) && forallb (fun v => negb (String.eqb (cv_str v) "")) (ce_variants c)).

(* names along one mapping: two leaves of one Rust enum that get different codes also get
   different printable names (exc : names of Rust enums) *)
Definition names_separate (cs : list cenum) (exc : list string) (m : rmap) : Prop :=
  ~ In (rm_name m) exc ->
  forall a b za zb sa sb, In a (rm_leaves m) -> In b (rm_leaves m) ->
    leaf_code cs a = Some za -> leaf_code cs b = Some zb -> za <> zb ->
    leaf_str cs a = Some sa -> leaf_str cs b = Some sb -> sa <> sb.
Definition names_separate_b (cs : list cenum) (exc : list string) (m : rmap) : bool :=
  smem (rm_name m) exc ||
  forallb (fun a => forallb (fun b =>
    match leaf_code cs a, leaf_code cs b, leaf_str cs a, leaf_str cs b with
    | Some za, Some zb, Some sa, Some sb => Z.eqb za zb || negb (String.eqb sa sb)
    | _, _, _, _ => true
    end) (rm_leaves m)) (rm_leaves m).

(* discriminants of one C enum are pairwise distinct (so a code names one variant) *)
Definition codes_distinct (c : cenum) : Prop := NoDup (map cv_code (ce_variants c)).
Definition codes_distinct_b (c : cenum) : bool := nodup_zb (map cv_code (ce_variants c)).

(* well-formedness of the tables themselves: unique C enum names, unique variant names per C
   enum, unique leaf names per Rust enum, unique Rust enum names *)
Definition tables_wf_b (cs : list cenum) (ms : list rmap) : bool :=
  nodup_sb (map ce_name cs) && nodup_sb (map rm_name ms)
  && forallb (fun c => nodup_sb (map cv_name (ce_variants c))) cs
  && forallb (fun m => nodup_sb (map lf_name (rm_leaves m))) ms.
Definition tables_wf (cs : list cenum) (ms : list rmap) : Prop :=
  NoDup (map ce_name cs) /\ NoDup (map rm_name ms)
  /\ (forall c, In c cs -> NoDup (map cv_name (ce_variants c)))
  /\ (forall m, In m ms -> NoDup (map lf_name (rm_leaves m))).

(* ---- witnesses: an exception entry is REAL (used to keep the hand-written lists honest) ---- *)
Definition find_rmap (ms : list rmap) (n : string) : option rmap :=
  find (fun m => String.eqb (rm_name m) n) ms.

(* (enum, leaf) really has no code *)
Definition diverges_b (cs : list cenum) (ms : list rmap) (k : key) : bool :=
  match find_rmap ms (fst k) with
  | Some m => existsb (fun l => String.eqb (lf_name l) (snd k) && negb (is_some (leaf_code cs l))) (rm_leaves m)
  | None => false
  end.
(* (enum, C variant) really is the image of two different leaves / two different top variants *)
Definition collapses_leaf_b (cs : list cenum) (ms : list rmap) (k : key) : bool :=
  match find_rmap ms (fst k) with
  | Some m => existsb (fun a => existsb (fun b =>
        String.eqb (leaf_cvariant a) (snd k) && oz_eqb (leaf_code cs a) (leaf_code cs b)
        && negb (String.eqb (lf_name a) (lf_name b))) (rm_leaves m)) (rm_leaves m)
  | None => false
  end.
Definition collapses_top_b (cs : list cenum) (ms : list rmap) (k : key) : bool :=
  match find_rmap ms (fst k) with
  | Some m => existsb (fun a => existsb (fun b =>
        String.eqb (leaf_cvariant a) (snd k) && oz_eqb (leaf_code cs a) (leaf_code cs b)
        && negb (String.eqb (lf_top a) (lf_top b))) (rm_leaves m)) (rm_leaves m)
  | None => false
  end.
Definition zero_b (ok : Z) (cs : list cenum) (ms : list rmap) (k : key) : bool :=
  match find_rmap ms (fst k) with
  | Some m => rm_is_error m && existsb (fun l => String.eqb (leaf_cvariant l) (snd k) && oz_eqb (leaf_code cs l) (Some ok)) (rm_leaves m)
  | None => false
  end.
Definition dupname_b (cs : list cenum) (n : string) : bool :=
  match find_cenum cs n with
  | Some c => ce_cstr c && negb (nodup_sb (map cv_str (ce_variants c)))
  | None => false
  end.
