(* Release/acquire view model of the SPSC index queue / spsc::Queue algorithm (thorough tier
   of C03, DESIGN.md 2.1 "Memory model").  Same access sites as model/SpscQueue.v, fixed roles
   (thread 0 = producer, thread 1 = consumer; hand-over is covered by the SC model), plus what
   C11 adds to sequential consistency for this algorithm:
     * a load of the OTHER thread's cursor may return a STALE value: any value between the
       last one this thread read from it (coherence) and the current one; the choice is taken
       from an oracle stream (universally quantified in the theorems);
     * an Acquire load that reads the value v written by a Release store makes everything
       before that store visible: the thread's acquired view of that cursor becomes >= v;
       with a Relaxed load or a Relaxed store the view is NOT advanced;
     * the slot cells are plain memory: a slot write of position w races with the consumer's
       read of position w - capacity (same slot, previous lap) unless the producer has
       ACQUIRED read_position >= w - capacity + 1; a slot read of position r races with the
       write of position r unless the consumer has ACQUIRED write_position >= r + 1.
       A racy access sets the sticky flag `race` (undefined behaviour in Rust/C11).
   The memory ordering of each site is a parameter (`ords`); `ords_code` is the table observed
   in the implementation (and pinned on every run by the G1 trace comparison).
   Slots are kept as one global array: in a race-free execution a plain read returns the
   happens-before-latest write, which here is the latest write in the interleaving. *)
From V Require Import model.Base model.Conc model.Events.
Open Scope N_scope.

Record ords := { o_push_load_wp : ord; o_push_load_rp : ord; o_push_store_wp : ord;
                 o_pop_load_rp : ord; o_pop_load_wp : ord; o_pop_store_rp : ord }.

Definition ords_code : ords :=
  {| o_push_load_wp := Relaxed; o_push_load_rp := Acquire; o_push_store_wp := Release;
     o_pop_load_rp := Relaxed; o_pop_load_wp := Acquire; o_pop_store_rp := Release |}.

Definition is_acq (o : ord) : bool := match o with Acquire | AcqRel | SeqCst => true | _ => false end.
Definition is_rel (o : ord) : bool := match o with Release | AcqRel | SeqCst => true | _ => false end.

Inductive rop := RPush (v : N) | RPop.

Inductive rpc :=
| RIdle
| RPushLoadRp (v w : N)
| RPushWrite (v w : N)
| RPushStore (v w : N)
| RPopLoadWp (r : N)
| RPopRead (r : N)
| RPopStore (r v : N).

Record rlst := {
  rprog : list rop; rat : rpc;
  seen : N;   (* coherence: last value this thread read from the other thread's cursor *)
  acq : N     (* largest value of the other thread's cursor this thread has acquired *)
}.

Record rgst := {
  rcap : N; rwp : N; rrp : N; rslots : list N;
  oracle : list N;       (* staleness choices, consumed by the loads of the foreign cursor *)
  race : bool;
  rpushed : list N; rpopped : list N
}.

Definition next_choice (g : rgst) : N * list N :=
  match oracle g with [] => (0, []) | k :: t => (k, t) end.

(* value returned by a load of a cursor whose current value is cur, last seen lo <= cur:
   cur - min(k, cur - lo) *)
Definition stale (cur lo k : N) : N := cur - N.min k (cur - lo).

Definition set_r (l : rlst) (p : list rop) (c : rpc) (s a : N) : rlst :=
  {| rprog := p; rat := c; seen := s; acq := a |}.

Definition rstep (O : ords) (t : nat) (g : rgst) (l : rlst) : option (rgst * rlst * list ev) :=
  match rat l with
  | RIdle =>
    match rprog l, t with
    | RPush v :: p, O%nat =>
      Some (g, set_r l p (RPushLoadRp v (rwp g)) (seen l) (acq l),
            [EAcc 10 0 0 KLoad (o_push_load_wp O) (o_push_load_wp O) (rwp g) 0 true])
    | RPop :: p, S O%nat =>
      Some (g, set_r l p (RPopLoadWp (rrp g)) (seen l) (acq l),
            [EAcc 20 1 0 KLoad (o_pop_load_rp O) (o_pop_load_rp O) (rrp g) 0 true])
    | _, _ => None
    end
  | RPushLoadRp v w =>
    let '(k, orc) := next_choice g in
    let r := stale (rrp g) (seen l) k in
    let a := if is_acq (o_push_load_rp O) && is_rel (o_pop_store_rp O) then N.max (acq l) r else acq l in
    let g' := {| rcap := rcap g; rwp := rwp g; rrp := rrp g; rslots := rslots g; oracle := orc;
                 race := race g; rpushed := rpushed g; rpopped := rpopped g |} in
    let e := EAcc 11 1 0 KLoad (o_push_load_rp O) (o_push_load_rp O) r 0 true in
    if N.eqb w (r + rcap g)
    then Some (g', set_r l (rprog l) RIdle r a, [e; ERet 0])
    else Some (g', set_r l (rprog l) (RPushWrite v w) r a, [e])
  | RPushWrite v w =>
    let i := N.modulo w (rcap g) in
    let racy := negb (N.ltb w (acq l + rcap g)) in
    Some ({| rcap := rcap g; rwp := rwp g; rrp := rrp g; rslots := updN (rslots g) i v; oracle := oracle g;
             race := race g || racy; rpushed := rpushed g; rpopped := rpopped g |},
          set_r l (rprog l) (RPushStore v w) (seen l) (acq l),
          [EAcc 12 2 i KCell NotAtomic NotAtomic 0 0 true])
  | RPushStore v w =>
    Some ({| rcap := rcap g; rwp := w + 1; rrp := rrp g; rslots := rslots g; oracle := oracle g;
             race := race g; rpushed := rpushed g ++ [v]; rpopped := rpopped g |},
          set_r l (rprog l) RIdle (seen l) (acq l),
          [EAcc 13 0 0 KStore (o_push_store_wp O) (o_push_store_wp O) 0 (w + 1) true; ERet 1])
  | RPopLoadWp r =>
    let '(k, orc) := next_choice g in
    let w := stale (rwp g) (seen l) k in
    let a := if is_acq (o_pop_load_wp O) && is_rel (o_push_store_wp O) then N.max (acq l) w else acq l in
    let g' := {| rcap := rcap g; rwp := rwp g; rrp := rrp g; rslots := rslots g; oracle := orc;
                 race := race g; rpushed := rpushed g; rpopped := rpopped g |} in
    let e := EAcc 21 0 0 KLoad (o_pop_load_wp O) (o_pop_load_wp O) w 0 true in
    if N.eqb r w
    then Some (g', set_r l (rprog l) RIdle w a, [e; ERet 0])
    else Some (g', set_r l (rprog l) (RPopRead r) w a, [e])
  | RPopRead r =>
    let i := N.modulo r (rcap g) in
    let racy := negb (N.ltb r (acq l)) in
    Some ({| rcap := rcap g; rwp := rwp g; rrp := rrp g; rslots := rslots g; oracle := oracle g;
             race := race g || racy; rpushed := rpushed g; rpopped := rpopped g |},
          set_r l (rprog l) (RPopStore r (nthN (rslots g) i 0)) (seen l) (acq l),
          [EAcc 22 2 i KCell NotAtomic NotAtomic 0 0 true])
  | RPopStore r v =>
    Some ({| rcap := rcap g; rwp := rwp g; rrp := r + 1; rslots := rslots g; oracle := oracle g;
             race := race g; rpushed := rpushed g; rpopped := rpopped g ++ [v] |},
          set_r l (rprog l) RIdle (seen l) (acq l),
          [EAcc 23 1 0 KStore (o_pop_store_rp O) (o_pop_store_rp O) 0 (r + 1) true; ERet (v + 1)])
  end.

Definition rg_init (c : N) (orc : list N) : rgst :=
  {| rcap := c; rwp := 0; rrp := 0; rslots := repeat 0%N (N.to_nat c); oracle := orc; race := false;
     rpushed := []; rpopped := [] |}.
Definition rl_init (p : list rop) : rlst := {| rprog := p; rat := RIdle; seen := 0; acq := 0 |}.
Definition rinit (c : N) (orc : list N) (pushes : list N) (pops : nat) : cfg rgst rlst :=
  (rg_init c orc,
   fun t => match t with
            | O => rl_init (map RPush pushes)
            | S O => rl_init (repeat RPop pops)
            | _ => rl_init []
            end).

Fixpoint rcontent_from (sl : list N) (c pos : N) (n : nat) : list N :=
  match n with
  | O => []
  | S k => nthN sl (N.modulo pos c) 0 :: rcontent_from sl c (pos + 1) k
  end.
Definition rcontent (g : rgst) : list N := rcontent_from (rslots g) (rcap g) (rrp g) (N.to_nat (rwp g - rrp g)).
