(* C15 -- executable model of the shared-memory allocators, transcribed from /repo:
     iceoryx2-bb/elementary/src/math.rs                 (align)
     iceoryx2-bb/memory/src/pool_allocator.rs           (PoolAllocator, FixedSizePoolAllocator)
     iceoryx2-bb/lock-free/.../unique_index_set.rs      (only its sequential free-list order)
     iceoryx2-bb/elementary/src/bump_allocator.rs       (BumpAllocator)
     iceoryx2-bb/memory/src/one_chunk_allocator.rs      (OneChunkAllocator)
     iceoryx2-cal/src/shm_allocator/pointer_offset.rs   (PointerOffset)
     iceoryx2-cal/src/shm_allocator/pool_allocator.rs   (cal PoolAllocator, resize_hint)
     iceoryx2-cal/src/shm_allocator/bump_allocator.rs   (cal BumpAllocator, resize_hint)
     iceoryx2/src/service/static_config/message_type_details.rs (chunk layout arithmetic)
     iceoryx2/src/port/details/data_segment.rs          (segment sizing)
     iceoryx2-cal/src/shared_memory/common.rs           (segment creation: payload, allocator init)
     iceoryx2-cal/src/resizable_shared_memory/dynamic.rs (DynamicMemory / DynamicView)
   Addresses and sizes are N.  usize arithmetic that the code does not check is modelled
   unbounded EXCEPT subtraction: `a - b` with a < b is a Rust panic in the builds the harness
   uses (overflow-checks = on) and is modelled as Panic; division by zero likewise. *)
From V Require Import model.Base.
Open Scope N_scope.

(* ---------------------------------------------------------------- math.rs *)
(* pub const fn align(value, alignment): if value.is_multiple_of(alignment) { value }
   else { value + alignment - value % alignment }.  Callers pass alignment >= 1. *)
Definition align (v a : N) : N :=
  if N.eqb (N.modulo v a) 0 then v else v + a - N.modulo v a.

(* core::alloc::Layout (size, align); align is a power of two >= 1 by construction in Rust *)
Record layout := { lsize : N; lalign : N }.

(* iceoryx2-bb/elementary-traits/src/allocator.rs AllocationError *)
Inductive aerr := ESizeIsZero | ESizeTooLarge | EAlignmentFailure | EOutOfMemory | EInternalError.

Inductive ares (A : Type) := AOk (a : A) | AErr (e : aerr).
Arguments AOk {A} a.
Arguments AErr {A} e.

Fixpoint nseq (start : N) (len : nat) : list N :=
  match len with O => [] | S k => start :: nseq (start + 1) k end.

(* ---------------------------------------------------------------- bb-memory PoolAllocator *)
(* fields of PoolAllocator; `buckets: UniqueIndexSet` is represented by its capacity and the
   list of free indices in hand-out order: the set is a LIFO free list (head, next[i]),
   initialised head = 0, next[i] = i+1, so the initial order is 0,1,2,...; release(i) pushes
   i to the front. *)
Record pool := { p_bsize : N; p_balign : N; p_start : N; p_size : N; p_nb : N; p_free : list N }.

(* PoolAllocator::calc_number_of_buckets *)
Definition pool_nbuckets (bl : layout) (ptr size : N) : res N :=
  let adjusted_start := align ptr (lalign bl) in
  let bucket_size := align (lsize bl) (lalign bl) in
  if N.ltb (ptr + size) adjusted_start then Panic        (* usize underflow *)
  else if N.eqb bucket_size 0 then Panic                  (* division by zero *)
  else Val ((ptr + size - adjusted_start) / bucket_size).

(* PoolAllocator::new_uninit + init (the index set memory is assumed to be provided).
   bucket_size: align(bucket_layout.size(), bucket_layout.align())  (since fix 1e23dc4: the
   stride is the aligned size, the same value the bucket count is computed from) *)
Definition pool_new (bl : layout) (ptr size : N) : res pool :=
  match pool_nbuckets bl ptr size with
  | Panic => Panic
  | Val n => Val {| p_bsize := align (lsize bl) (lalign bl); p_balign := lalign bl;
                    p_start := align ptr (lalign bl);
                    p_size := size; p_nb := n; p_free := nseq 0 (N.to_nat n) |}
  end.

(* address of bucket i as computed in allocate(): start + v * self.bucket_size *)
Definition bucket_addr (p : pool) (i : N) : N := p_start p + i * p_bsize p.

(* Allocate::allocate *)
Definition pool_allocate (p : pool) (l : layout) : pool * ares N :=
  if N.ltb (p_bsize p) (lsize l) then (p, AErr ESizeTooLarge)
  else if N.ltb (p_balign p) (lalign l) then (p, AErr EAlignmentFailure)
  else match p_free p with
       | [] => (p, AErr EOutOfMemory)
       | i :: r => ({| p_bsize := p_bsize p; p_balign := p_balign p; p_start := p_start p;
                       p_size := p_size p; p_nb := p_nb p; p_free := r |}, AOk (bucket_addr p i))
       end.

(* verify_ptr_is_managed_by_allocator (a debug_assert: active in the harness build) *)
Definition pool_ptr_managed (p : pool) (addr : N) : bool :=
  negb (N.ltb addr (p_start p) || N.ltb (p_start p + p_size p) addr
        || negb (if N.eqb (p_bsize p) 0 then N.eqb (addr - p_start p) 0
                 else N.eqb (N.modulo (addr - p_start p) (p_bsize p)) 0)).

(* get_index *)
Definition pool_get_index (p : pool) (addr : N) : res N :=
  if negb (pool_ptr_managed p addr) then Panic
  else if N.eqb (p_bsize p) 0 then Panic
  else Val ((addr - p_start p) / p_bsize p).

(* deallocate_bucket: release_raw_index(get_index(ptr)) *)
Definition pool_deallocate (p : pool) (addr : N) : res pool :=
  match pool_get_index p addr with
  | Panic => Panic
  | Val i => Val {| p_bsize := p_bsize p; p_balign := p_balign p; p_start := p_start p;
                    p_size := p_size p; p_nb := p_nb p; p_free := i :: p_free p |}
  end.

(* ---------------------------------------------------------------- bb-elementary BumpAllocator *)
Record bump := { b_start : N; b_pos : N; b_total : N }.
Definition bump_new (start total : N) : bump := {| b_start := start; b_pos := 0; b_total := total |}.

Definition bump_allocate (b : bump) (l : layout) : bump * ares N :=
  if N.eqb (lsize l) 0 then (b, AErr ESizeIsZero)
  else
    let next := align (b_start b + b_pos b) (lalign l) - b_start b in
    if N.ltb (b_total b) (next + lsize l) then (b, AErr EOutOfMemory)
    else ({| b_start := b_start b; b_pos := next + lsize l; b_total := b_total b |},
          AOk (b_start b + next)).

Definition bump_reset (b : bump) : bump := {| b_start := b_start b; b_pos := 0; b_total := b_total b |}.
Definition bump_free_space (b : bump) : N := b_total b - b_pos b.

(* FixedSizePoolAllocator::<MAX>::new: capacity min(n, MAX); the index set is initialised from
   a BumpAllocator over size_of::<Self>() - offset_of!(Self, next_free_index) bytes (since fix
   5269bf7): the MAX u32 cells of next_free_index, the cell next_free_index_plus_one and the
   tail padding of the 8-aligned repr(C) struct, i.e. align(4*(MAX+1), 8) bytes starting at the
   4-aligned member address `mgmt`.  UniqueIndexSet::init asks it for
   Layout::array::<u32>(capacity + 1); a failure is `.expect("All required memory is
   preallocated.")`, i.e. a panic. *)
Definition fixed_pool_new (max : N) (mgmt : N) (bl : layout) (ptr size : N) : res pool :=
  match pool_nbuckets bl ptr size with
  | Panic => Panic
  | Val n =>
    let cap := N.min n max in
    match snd (bump_allocate (bump_new mgmt (align (4 * (max + 1)) 8)) {| lsize := 4 * (cap + 1); lalign := 4 |}) with
    | AErr _ => Panic
    | AOk _ => Val {| p_bsize := align (lsize bl) (lalign bl); p_balign := lalign bl;
                      p_start := align ptr (lalign bl);
                      p_size := size; p_nb := cap; p_free := nseq 0 (N.to_nat cap) |}
    end
  end.

(* ---------------------------------------------------------------- OneChunkAllocator *)
(* allocated_chunk_start holds the absolute address of the chunk, 0 = chunk available *)
Record onechunk := { oc_start : N; oc_size : N; oc_chunk : N }.
Definition oc_new (start size : N) : onechunk := {| oc_start := start; oc_size := size; oc_chunk := 0 |}.

Definition oc_allocate (o : onechunk) (l : layout) : res (onechunk * ares N) :=
  let adjusted_start := align (oc_start o) (lalign l) in
  if negb (N.eqb (oc_chunk o) 0) then Val (o, AErr EOutOfMemory)
  else if N.ltb (oc_size o) (adjusted_start - oc_start o) then Panic     (* usize underflow *)
  else
    let available_size := oc_size o - (adjusted_start - oc_start o) in
    if N.leb available_size (lsize l) then Val (o, AErr EOutOfMemory)
    else Val ({| oc_start := oc_start o; oc_size := oc_size o; oc_chunk := adjusted_start |}, AOk adjusted_start).

Definition oc_deallocate (o : onechunk) (addr : N) : res onechunk :=
  if N.eqb addr (oc_chunk o) then Val {| oc_start := oc_start o; oc_size := oc_size o; oc_chunk := 0 |}
  else Panic.   (* debug_assert in verify_ptr_is_managed_by_allocator *)

(* ---------------------------------------------------------------- PointerOffset (u64) *)
(* from_offset_and_segment_id: ((offset as u64) << 8) | segment_id  -- the shift drops the
   bits above 2^64 silently *)
Definition po_make (offset seg : N) : N := N.lor (N.land (N.shiftl offset 8) (N.ones 64)) seg.
Definition po_new (offset : N) : N := po_make offset 0.
Definition po_offset (v : N) : N := N.shiftr v 8.
Definition po_segment (v : N) : N := N.land v (N.ones 8).
(* set_segment_id: self.0 &= !((1 << 8) - 1); self.0 |= value *)
Definition po_set_segment (v seg : N) : N := N.lor (N.ldiff v (N.ones 8)) seg.

(* ---------------------------------------------------------------- cal shm_allocator::PoolAllocator *)
Inductive strategy := BestFit | PowerOfTwo | Static.

(* usize::next_power_of_two: smallest power of two >= n (1 for n = 0) *)
Definition next_pow2 (n : N) : N := 2 ^ N.log2_up n.
(* usize::next_multiple_of(rhs): match self % rhs { 0 => self, r => self + (rhs - r) } *)
Definition next_multiple_of (v a : N) : N :=
  if N.eqb (N.modulo v a) 0 then v else v + (a - N.modulo v a).

Record calpool := { cp_pool : pool; cp_base : N; cp_maxmem : N; cp_used : N }.

Definition cal_new (maxmem : N) (ptr size : N) (cfg : layout) : res calpool :=
  match pool_new cfg ptr size with
  | Panic => Panic
  | Val p => Val {| cp_pool := p; cp_base := ptr; cp_maxmem := maxmem; cp_used := 0 |}
  end.

(* init: false = ShmAllocatorInitError::MaxSupportedMemoryAlignmentInsufficient *)
Definition cal_init_ok (c : calpool) : bool := negb (N.ltb (cp_maxmem c) (p_balign (cp_pool c))).

Definition cal_relative_start (c : calpool) : N := p_start (cp_pool c) - cp_base c.

(* InitializedPoolAllocator::allocate: offsets are relative to the allocator's (aligned) start *)
Definition cal_allocate (c : calpool) (l : layout) : calpool * ares N :=
  if N.ltb (p_balign (cp_pool c)) (lalign l) then (c, AErr EAlignmentFailure)
  else match pool_allocate (cp_pool c) l with
       | (_, AErr e) => (c, AErr e)
       | (p', AOk addr) =>
         ({| cp_pool := p'; cp_base := cp_base c; cp_maxmem := cp_maxmem c; cp_used := cp_used c + 1 |},
          AOk (po_new (addr - p_start (cp_pool c))))
       end.

(* deallocate_bucket: number_of_used_buckets.fetch_sub(1) (wrapping), then the bb allocator *)
Definition cal_deallocate (c : calpool) (off : N) : res calpool :=
  match pool_deallocate (cp_pool c) (po_offset off + p_start (cp_pool c)) with
  | Panic => Panic
  | Val p' => Val {| cp_pool := p'; cp_base := cp_base c; cp_maxmem := cp_maxmem c;
                     cp_used := if N.eqb (cp_used c) 0 then 2 ^ 64 - 1 else cp_used c - 1 |}
  end.

(* resize_hint as a function of (used, buckets, current layout); result: (bucket layout, count);
   payload_size = initial_setup_hint(layout, count) *)
Definition resize_hint_count (used nb : N) (s : strategy) : N :=
  if N.eqb used nb then
    match s with BestFit => nb + 1 | PowerOfTwo => next_pow2 (nb + 1) | Static => nb end
  else nb.

Definition resize_hint_layout (cur l : layout) (s : strategy) : layout :=
  if N.ltb (lsize cur) (lsize l) || N.ltb (lalign cur) (lalign l) then
    match s with
    | Static => cur
    | BestFit =>
      let a := N.max (lalign l) (lalign cur) in
      {| lsize := next_multiple_of (N.max (lsize l) (lsize cur)) a; lalign := a |}
    | PowerOfTwo =>
      let a := next_pow2 (N.max (lalign l) (lalign cur)) in
      {| lsize := next_multiple_of (next_pow2 (N.max (lsize l) (lsize cur))) a; lalign := a |}
    end
  else cur.

(* initial_setup_hint: payload_size = max_chunk_layout.size() * max_number_of_chunks -- NO
   alignment slack (unlike data_segment.rs create_static_segment, which adds align - 1); the
   cal tests pin this value.  Consequence: known finding F18, see dyn_segment_enough_refuted. *)
Definition setup_payload_size (l : layout) (n : N) : N := lsize l * n.

Definition cal_resize_hint (c : calpool) (l : layout) (s : strategy) : layout * N :=
  let cur := {| lsize := p_bsize (cp_pool c); lalign := p_balign (cp_pool c) |} in
  (resize_hint_layout cur l s, resize_hint_count (cp_used c) (p_nb (cp_pool c)) s).

(* ---------------------------------------------------------------- cal shm_allocator::BumpAllocator *)
Record calbump := { cb_bump : bump; cb_base : N }.
Definition cb_new (ptr size : N) : calbump := {| cb_bump := bump_new ptr size; cb_base := ptr |}.
Definition cb_max_alignment : N := 8.

Definition cb_allocate (c : calbump) (l : layout) : calbump * ares N :=
  if N.ltb cb_max_alignment (lalign l) then (c, AErr EAlignmentFailure)
  else match bump_allocate (cb_bump c) l with
       | (_, AErr e) => (c, AErr e)
       | (b', AOk addr) => ({| cb_bump := b'; cb_base := cb_base c |}, AOk (po_new (addr - cb_base c)))
       end.

(* Deallocate::deallocate(_ptr, _layout): allocator.reset() -- frees EVERYTHING *)
Definition cb_deallocate (c : calbump) : calbump := {| cb_bump := bump_reset (cb_bump c); cb_base := cb_base c |}.

Definition cb_resize_hint (c : calbump) (l : layout) (s : strategy) : N :=
  let cur := b_total (cb_bump c) in
  if N.ltb (lsize l) (bump_free_space (cb_bump c)) then cur
  else match s with
       | BestFit => cur + lsize l
       | PowerOfTwo => next_pow2 (cur + lsize l)
       | Static => cur
       end.

(* ---------------------------------------------------------------- message_type_details.rs *)
Record tdetail := { td_size : N; td_align : N }.
Record mtd := { m_header : tdetail; m_uheader : tdetail; m_payload : tdetail }.

Definition all_headers_len (m : mtd) : N :=
  align (align (td_size (m_header m)) (td_align (m_uheader m)) + td_size (m_uheader m))
        (td_align (m_payload m)).

Definition user_header_ptr_from_header (m : mtd) (header : N) : N :=
  align (header + td_size (m_header m)) (td_align (m_uheader m)).

Definition payload_ptr_from_header (m : mtd) (header : N) : N :=
  align (user_header_ptr_from_header m header + td_size (m_uheader m)) (td_align (m_payload m)).

Definition mtd_max_alignment (m : mtd) : N :=
  N.max (N.max (td_align (m_header m)) (td_align (m_uheader m))) (td_align (m_payload m)).

Definition chunk_layout (m : mtd) (n : N) : layout :=
  let ma := mtd_max_alignment m in
  {| lsize := align (all_headers_len m + align (td_size (m_payload m)) (td_align (m_payload m)) * n) ma;
     lalign := ma |}.

(* ---------------------------------------------------------------- data_segment.rs sizing *)
(* create_static_segment: .size(chunk_layout.size() * number_of_chunks + chunk_layout.align() - 1) *)
Definition static_segment_size (cl : layout) (n : N) : N := lsize cl * n + lalign cl - 1.
(* create_dynamic_segment -> DynamicMemoryBuilder::create: initial_setup_hint(layout, n).payload_size *)
Definition dynamic_segment_size (cl : layout) (n : N) : N := setup_payload_size cl n.

(* ---------------------------------------------------------------- association lists (SlotMap keyed by segment id) *)
Fixpoint alookup {A} (k : N) (m : list (N * A)) : option A :=
  match m with [] => None | (k', v) :: r => if N.eqb k k' then Some v else alookup k r end.
Fixpoint aremove {A} (k : N) (m : list (N * A)) : list (N * A) :=
  match m with [] => [] | (k', v) :: r => if N.eqb k k' then aremove k r else (k', v) :: aremove k r end.
Definition aset {A} (k : N) (v : A) (m : list (N * A)) : list (N * A) := (k, v) :: aremove k m.

(* ---------------------------------------------------------------- shared_memory/common.rs: one segment *)
(* Builder::create + initialize: SizeIsZero if size = 0; the payload is `size` bytes at address
   `base` (bump-allocated with alignment 1 behind the AllocatorDetails header, so `base` is NOT
   aligned to the bucket alignment in general); Allocator::new_uninit(PageSize, payload, config);
   init fails when the bucket alignment exceeds the page size.  None = creation failed. *)
Record seg := { s_cal : calpool; s_count : N }.

Definition seg_create (maxmem base : N) (cfg : layout) (size : N) : res (option seg) :=
  if N.eqb size 0 then Val None
  else match cal_new maxmem base size cfg with
       | Panic => Panic
       | Val c => if cal_init_ok c then Val (Some {| s_cal := c; s_count := 0 |}) else Val None
       end.

(* ---------------------------------------------------------------- resizable_shared_memory/dynamic.rs: DynamicMemory *)
Definition max_reallocations : N := 256.   (* SegmentId::max_segment_id() + 1 *)

Record dynmem := { d_segs : list (N * seg); d_cur : N; d_strategy : strategy; d_hint : layout;
                   d_maxmem : N; d_base : N }.

Inductive dres (A : Type) := DVal (a : A) | DPanic | DOutOfFuel.
Arguments DVal {A} a.
Arguments DPanic {A}.
Arguments DOutOfFuel {A}.

(* DynamicMemoryBuilder::create (the management segment is not modelled) *)
Definition dyn_new (maxmem base : N) (s : strategy) (hint : layout) (nchunks : N) : res (option dynmem) :=
  match seg_create maxmem base hint (setup_payload_size hint nchunks) with
  | Panic => Panic
  | Val None => Val None
  | Val (Some sg) => Val (Some {| d_segs := [(0, sg)]; d_cur := 0; d_strategy := s; d_hint := hint;
                                  d_maxmem := maxmem; d_base := base |})
  end.

Definition dyn_with (d : dynmem) (segs : list (N * seg)) (cur : N) (hint : layout) : dynmem :=
  {| d_segs := segs; d_cur := cur; d_strategy := d_strategy d; d_hint := hint;
     d_maxmem := d_maxmem d; d_base := d_base d |}.

(* create_resized_segment: Val (d', true) = Ok, Val (d', false) = Err(OutOfMemory) *)
Definition dyn_create_resized (d : dynmem) (cur : seg) (l : layout) : res (dynmem * bool) :=
  let '(lay, cnt) := cal_resize_hint (s_cal cur) l (d_strategy d) in
  let new_id := d_cur d + 1 in
  if negb (N.ltb new_id max_reallocations) then Val (d, false)
  else match seg_create (d_maxmem d) (d_base d) lay (setup_payload_size lay cnt) with
       | Panic => Panic
       | Val None => Val (dyn_with d (d_segs d) (d_cur d) lay, false)
       | Val (Some sg) =>
         let segs1 := if N.eqb (s_count cur) 0 then aremove (d_cur d) (d_segs d) else d_segs d in
         Val (dyn_with d (aset new_id sg segs1) new_id lay, true)
       end.

(* Allocate::allocate: loop { allocate in the current segment; on OutOfMemory / SizeTooLarge /
   AlignmentFailure -> handle_reallocation } *)
Fixpoint dyn_allocate_fuel (fuel : nat) (d : dynmem) (l : layout) : dres (dynmem * ares N) :=
  match fuel with
  | O => DOutOfFuel
  | S f =>
    match alookup (d_cur d) (d_segs d) with
    | None => DPanic                 (* fatal_panic: current segment not available *)
    | Some sg =>
      match cal_allocate (s_cal sg) l with
      | (c', AOk off) =>
        DVal (dyn_with d (aset (d_cur d) {| s_cal := c'; s_count := s_count sg + 1 |} (d_segs d)) (d_cur d) (d_hint d),
              AOk (po_set_segment off (d_cur d)))
      | (_, AErr ESizeIsZero) => DVal (d, AErr ESizeIsZero)
      | (_, AErr EInternalError) => DVal (d, AErr EInternalError)
      | (_, AErr _) =>
        match d_strategy d with
        | Static => DVal (d, AErr EOutOfMemory)
        | _ => match dyn_create_resized d sg l with
               | Panic => DPanic
               | Val (d', false) => DVal (d', AErr EOutOfMemory)
               | Val (d', true) => dyn_allocate_fuel f d' l
               end
        end
      end
    end
  end.

Definition dyn_allocate (d : dynmem) (l : layout) : dres (dynmem * ares N) :=
  dyn_allocate_fuel 258 d l.

(* perform_deallocation / deallocate_bucket *)
Definition dyn_deallocate (d : dynmem) (off : N) : res dynmem :=
  let id := po_segment off in
  match alookup id (d_segs d) with
  | None => Panic
  | Some sg =>
    match cal_deallocate (s_cal sg) off with
    | Panic => Panic
    | Val c' =>
      (* chunk_count.fetch_sub(1) returned 1 => Empty *)
      let cnt' := if N.eqb (s_count sg) 0 then 2 ^ 64 - 1 else s_count sg - 1 in
      if N.eqb (s_count sg) 1 && negb (N.eqb id (d_cur d))
      then Val (dyn_with d (aremove id (d_segs d)) (d_cur d) (d_hint d))
      else Val (dyn_with d (aset id {| s_cal := c'; s_count := cnt' |} (d_segs d)) (d_cur d) (d_hint d))
    end
  end.

Definition dyn_nsegs (d : dynmem) : N := lenN (d_segs d).

(* ---------------------------------------------------------------- DynamicView (receiver side) *)
(* shared_memory_map: segment id -> chunk_count; current_idx (INVALID_KEY = None) *)
Record view := { v_segs : list (N * N); v_cur : option N }.
Definition view_new : view := {| v_segs := []; v_cur := None |}.

(* register_and_translate_offset; `exists_seg id` = the sender still provides segment id (the
   open succeeds).  Result: None = SharedMemoryOpenError, Some (id, offset) = the pointer
   payload_start(segment id) + offset. *)
Definition view_register (exists_seg : N -> bool) (v : view) (off : N) : view * option (N * N) :=
  let id := po_segment off in
  match alookup id (v_segs v) with
  | None =>
    if exists_seg id then
      let m1 := aset id 1 (v_segs v) in
      let m2 := match v_cur v with
                | None => m1
                | Some old => match alookup old m1 with
                              | Some 0 => aremove old m1
                              | _ => m1
                              end
                end in
      ({| v_segs := m2; v_cur := Some id |}, Some (id, po_offset off))
    else (v, None)
  | Some c => ({| v_segs := aset id (c + 1) (v_segs v); v_cur := v_cur v |}, Some (id, po_offset off))
  end.

Definition view_unregister (v : view) (off : N) : view :=
  let id := po_segment off in
  match alookup id (v_segs v) with
  | None => v           (* warn!(..) only *)
  | Some c =>
    let c' := if N.eqb c 0 then 2 ^ 64 - 1 else c - 1 in
    if N.eqb c 1 && negb (match v_cur v with Some k => N.eqb k id | None => false end)
    then {| v_segs := aremove id (v_segs v); v_cur := v_cur v |}
    else {| v_segs := aset id c' (v_segs v); v_cur := v_cur v |}
  end.

Definition view_nsegs (v : view) : N := lenN (v_segs v).

(* ================================================================ reference spec ==== *)
(* The property's oracle for one allocator over a block [lo, hi): every live allocation
   (addr, size, align) lies inside the block, is aligned, and overlaps no other live one. *)
Record live := { lv_addr : N; lv_size : N; lv_align : N }.

Definition ranges_disjoint (a1 s1 a2 s2 : N) : bool := N.leb (a1 + s1) a2 || N.leb (a2 + s2) a1.

Definition live_ok_one (lo hi : N) (x : live) : bool :=
  N.leb lo (lv_addr x) && N.leb (lv_addr x + lv_size x) hi && N.eqb (N.modulo (lv_addr x) (lv_align x)) 0.

Fixpoint live_disjoint_from (x : live) (ls : list live) : bool :=
  match ls with
  | [] => true
  | y :: r => ranges_disjoint (lv_addr x) (lv_size x) (lv_addr y) (lv_size y) && live_disjoint_from x r
  end.

Fixpoint live_pairwise_disjoint (ls : list live) : bool :=
  match ls with [] => true | x :: r => live_disjoint_from x r && live_pairwise_disjoint r end.

Definition live_ok (lo hi : N) (ls : list live) : bool :=
  forallb (live_ok_one lo hi) ls && live_pairwise_disjoint ls.
