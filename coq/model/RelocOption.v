(* Model of iceoryx2-bb/container/src/relocatable_option.rs (RelocatableOption<T>, a repr(C)
   mirror of core::option::Option): one cell holding None or Some(value).  Each operation
   transcribes the match of the Rust method; the by-value (consuming) methods are applied to
   the content moved out of the cell by the caller, which leaves None behind.  Reference = what
   core::option::Option does, written with the std combinators.  Third component: drop log. *)
From V Require Import model.Base model.Obs.
Open Scope N_scope.

Inductive oop :=
| ORReplace (v : N)            (* replace(value) *)
| ORTake                       (* take() *)
| ORTakeIf (l : list N)        (* take_if(|v| l.contains(v)) *)
| ORIsSome | ORIsNone
| ORGet                        (* as_option_ref / as_option_mut / as_ref / as_mut *)
| ORToOption                   (* to_option(self) / Option::from *)
| ORUnwrap | ORExpect          (* fatal_panic on None *)
| ORUnwrapOr (alt : N)         (* unwrap_or(alternative) = unwrap_or_else(|| alternative) *)
| ORUnwrapOrElse (alt : N)     (* unwrap_or_else(|| alt) *)
| ORMap (d : N)                (* map(|v| v + d) then handed back *)
| ORDrop.                      (* the cell goes out of scope *)

Definition memo (l : list N) (c : N) : bool := existsb (N.eqb c) l.

Definition ro_step (o : option N) (op : oop) : option N * obs * list N :=
  match op with
  | ORReplace v => (Some v, OO o, [])                 (* core::mem::replace(self, Some(value)) *)
  | ORTake => (None, OO o, [])                        (* core::mem::take(self) *)
  | ORTakeIf l =>
    match o with
    | None => (o, OO None, [])
    | Some v => if memo l v then (None, OO (Some v), []) else (o, OO None, [])
    end
  | ORIsNone => (o, OB (match o with None => true | Some _ => false end), [])
  | ORIsSome => (o, OB (negb (match o with None => true | Some _ => false end)), [])   (* !self.is_none() *)
  | ORGet => (o, OO (match o with Some v => Some v | None => None end), [])
  | ORToOption => (None, OO (match o with Some v => Some v | None => None end), [])
  | ORUnwrap | ORExpect => match o with Some v => (None, ON v, []) | None => (None, OP, []) end
  | ORUnwrapOr alt =>
    (* the closure owning `alternative` is dropped unused when the cell holds a value *)
    match o with Some v => (None, ON v, [alt]) | None => (None, ON alt, []) end
  | ORUnwrapOrElse alt => match o with Some v => (None, ON v, []) | None => (None, ON alt, []) end
  | ORMap d => match o with None => (None, OO None, []) | Some v => (None, OO (Some (v + d)), []) end
  | ORDrop => (o, OUnit, match o with Some v => [v] | None => [] end)
  end.

(* the reference: core::option::Option *)
Definition so_step (o : option N) (op : oop) : option N * obs * list N :=
  match op with
  | ORReplace v => (Some v, OO o, [])
  | ORTake => (None, OO o, [])
  | ORTakeIf l => if match o with Some v => memo l v | None => false end then (None, OO o, []) else (o, OO None, [])
  | ORIsSome => (o, OB (if o then true else false), [])
  | ORIsNone => (o, OB (if o then false else true), [])
  | ORGet => (o, OO o, [])
  | ORToOption => (None, OO o, [])
  | ORUnwrap | ORExpect => (None, match o with Some v => ON v | None => OP end, [])
  | ORUnwrapOr alt => (None, ON (match o with Some v => v | None => alt end), if o then [alt] else [])
  | ORUnwrapOrElse alt => (None, ON (match o with Some v => v | None => alt end), [])
  | ORMap d => (None, OO (option_map (fun v => v + d) o), [])
  | ORDrop => (o, OUnit, match o with Some v => [v] | None => [] end)
  end.
