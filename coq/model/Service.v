(* Executable model of service creation / opening / dropping in iceoryx2 (property C06).

   Part A -- settings: what a builder asks for, what a created service stores, and
     verify_service_configuration of builder/{publish_subscribe,event,request_response,blackboard}.rs
     requirement by requirement in source order, incl. the adjustment of zero settings
     (adjust_configuration_to_meaningful_values / adjust_attributes_to_meaningful_values): on create and
     open_or_create, never on open.
   Part B -- protocol: builder/mod.rs create / open / open_or_create and service/mod.rs
     ServiceState::drop as step lists over a small file-system state; one step = one libc call as
     seen by harness/libgate (close / mmap / munmap / opendir / closedir are process local and not
     steps) or one step of the node registry protocol (dynamic_config/mod.rs register_node_id /
     deregister_node_id with ReleaseMode::LockIfLastIndex over mpmc/robust_unique_index_set.rs), split where
     interleavings matter: acquire = [lock check + cell CAS] ; [generation increment WITH re-check of the LOCK
     indicator]; release = [cell CAS + generation increment] ; [snapshot: generation + number of populated cells] ;
     [CAS generation -> LOCK, valid only for an unchanged generation].  The scan over the cells is one step
     (C09 covers the index set itself).  Threads of model/Conc.v = nodes (one
     node per process).  Time is an abstract tick budget T: every sleep of a waiting loop is one
     tick.

   Not modelled: permission failures, EINTR, corrupted / foreign files, version mismatch, the
   dead-node scan of open (cleanup_dead_nodes_on_open; C04/C07), type-definition resources
   (flatbuffer payloads), the root / services / node directories (they exist), two threads
   sharing one node. *)
From V Require Import model.Base model.Conc.
Open Scope N_scope.

(* ------------------------------------------------------------------------------------------ *)
(* Part A: settings                                                                             *)
(* ------------------------------------------------------------------------------------------ *)
Inductive pattern := PubSub | Event | ReqRes | Blackboard.

Inductive err :=
(* builder/mod.rs ServiceOpenError / ServiceCreateError and the per-pattern enums *)
| DoesNotExist | AlreadyExists | HangsInCreation | IsMarkedForDestruction | ExceedsMaxNumberOfNodes
| ServiceInCorruptedState | SystemInFlux | InternalFailure
| IncompatibleAttributes
| UnableToAcquireTypeDefinition
| IncompatibleTypes          (* ps: IncompatibleTypes, rr: IncompatibleRequestOrResponseType, bb: IncompatibleKeys *)
| SubscriberBufferMustBeLargerThanHistorySize | NoEntriesProvided
(* publish_subscribe.rs verify_service_configuration, in source order *)
| DoesNotSupportRequestedAmountOfPublishers | DoesNotSupportRequestedAmountOfSubscribers
| DoesNotSupportRequestedMinBufferSize | DoesNotSupportRequestedMinHistorySize
| DoesNotSupportRequestedMinSubscriberBorrowedSamples | IncompatibleOverflowBehavior
| DoesNotSupportRequestedAmountOfNodes
(* event.rs *)
| DoesNotSupportRequestedAmountOfNotifiers | DoesNotSupportRequestedAmountOfListeners
| DoesNotSupportRequestedMaxEventId
| IncompatibleNotifierCreatedEvent | IncompatibleNotifierDroppedEvent | IncompatibleNotifierDeadEvent
| IncompatibleDeadline
(* request_response.rs *)
| IncompatibleOverflowBehaviorForRequests | IncompatibleOverflowBehaviorForResponses
| IncompatibleBehaviorForFireAndForgetRequests
| DoesNotSupportRequestedAmountOfActiveRequestsPerClient | DoesNotSupportRequestedAmountOfClientRequestLoans
| DoesNotSupportRequestedAmountOfBorrowedResponsesPerPendingResponse
| DoesNotSupportRequestedResponseBufferSize | DoesNotSupportRequestedAmountOfServers
| DoesNotSupportRequestedAmountOfClients
(* blackboard.rs *)
| DoesNotSupportRequestedAmountOfReaders.

(* how a requirement is compared with the existing setting *)
Inductive fkind := KGe (* existing < required fails *) | KEq (* existing <> required fails *).

(* one row per `if self.verify.x && existing.x (<|!=) required.x { fail!(.., Error) }`, in source order *)
Definition field_table (p : pattern) : list (fkind * err) :=
  match p with
  | PubSub =>
    [ (KGe, DoesNotSupportRequestedAmountOfPublishers); (KGe, DoesNotSupportRequestedAmountOfSubscribers);
      (KGe, DoesNotSupportRequestedMinBufferSize); (KGe, DoesNotSupportRequestedMinHistorySize);
      (KGe, DoesNotSupportRequestedMinSubscriberBorrowedSamples); (KEq, IncompatibleOverflowBehavior);
      (KGe, DoesNotSupportRequestedAmountOfNodes) ]
  | Event =>
    [ (KGe, DoesNotSupportRequestedAmountOfNotifiers); (KGe, DoesNotSupportRequestedAmountOfListeners);
      (KGe, DoesNotSupportRequestedMaxEventId); (KGe, DoesNotSupportRequestedAmountOfNodes);
      (KEq, IncompatibleNotifierCreatedEvent); (KEq, IncompatibleNotifierDroppedEvent);
      (KEq, IncompatibleNotifierDeadEvent); (KEq, IncompatibleDeadline) ]
  | ReqRes =>
    [ (KEq, IncompatibleOverflowBehaviorForRequests); (KEq, IncompatibleOverflowBehaviorForResponses);
      (KEq, IncompatibleBehaviorForFireAndForgetRequests);
      (KGe, DoesNotSupportRequestedAmountOfActiveRequestsPerClient);
      (KGe, DoesNotSupportRequestedAmountOfClientRequestLoans);
      (KGe, DoesNotSupportRequestedAmountOfBorrowedResponsesPerPendingResponse);
      (KGe, DoesNotSupportRequestedResponseBufferSize); (KGe, DoesNotSupportRequestedAmountOfServers);
      (KGe, DoesNotSupportRequestedAmountOfClients); (KGe, DoesNotSupportRequestedAmountOfNodes) ]
  | Blackboard =>
    [ (KGe, DoesNotSupportRequestedAmountOfReaders); (KGe, DoesNotSupportRequestedAmountOfNodes) ]
  end.

(* fields that adjust_configuration_to_meaningful_values raises from 0 to 1 *)
Definition adjust_mask (p : pattern) : list bool :=
  match p with
  | PubSub => [true; true; true; false; true; false; true]
  | Event => [true; true; false; true; false; false; false; false]
  | ReqRes => [false; false; false; true; true; true; true; true; true; true]
  | Blackboard => [true; true]
  end.

(* fields that size a lock-free container of the dynamic config (port lists, node list): a zero
   makes Container::init fail, which DynamicConfig::init turns into fatal_panic! *)
Definition capacity_mask (p : pattern) : list bool :=
  match p with
  | PubSub => [true; true; false; false; false; false; true]
  | Event => [true; true; false; true; false; false; false; false]
  | ReqRes => [false; false; false; false; false; false; false; true; true; true]
  | Blackboard => [true; true]
  end.

(* index of max_nodes *)
Definition nodes_index (p : pattern) : nat :=
  match p with PubSub => 6 | Event => 3 | ReqRes => 9 | Blackboard => 1 end%nat.

Inductive opkind := KCreate | KOpen | KOoc.

(* Which public entry point runs the adjustment before using the builder's values: every create and
   open_or_create of every pattern and payload kind (publish_subscribe.rs / request_response.rs: fixed-size AND
   slice builders; event.rs; blackboard.rs create_impl -- the blackboard has no open_or_create), open never. *)
Definition does_adjust (p : pattern) (sized : bool) (k : opkind) : bool :=
  match k with
  | KOpen => false
  | KCreate | KOoc => true
  end.

(* TypeDetail: variant (0 fixed size, 1 dynamic), type name, size, alignment *)
Record tdetail := mkTd { td_variant : N; td_name : N; td_size : N; td_align : N }.

(* what a builder was told *)
Record req := mkReq {
  r_pat : pattern;
  r_sized : bool;                     (* every payload is a fixed-size type (not a slice builder) *)
  r_vals : list (option N);           (* per field of field_table: None = setter not called *)
  r_types : list tdetail;             (* ps: [payload]; rr: [request; response]; bb: [key]; ev: [] *)
  r_define : list (N * N);            (* AttributeSpecifier *)
  r_require : list (N * N);           (* AttributeVerifier: required key = value *)
  r_keys : list N;                    (* AttributeVerifier: required keys *)
  r_noentries : bool;                 (* blackboard creator without add() *)
  r_resfail : option err              (* creation of the service's additional resources fails with this error: blackboard
                                         creator that adds a key twice (ServiceInCorruptedState), Flatbuffer payload whose
                                         schema cannot be found (UnableToAcquireTypeDefinition) *)
}.

(* what the static config file of a service stores *)
Record scfg := mkCfg { c_pat : pattern; c_vals : list N; c_types : list tdetail; c_attrs : list (N * N) }.

Fixpoint eff_vals (adj : bool) (mask : list bool) (defs : list N) (rq : list (option N)) : list N :=
  match mask, defs, rq with
  | m :: mask', d :: defs', r :: rq' =>
    let v := match r with Some x => x | None => d end in
    (if adj && m && (v =? 0) then 1 else v) :: eff_vals adj mask' defs' rq'
  | _, _, _ => []
  end.

(* the values the comparison uses: the builder's (possibly adjusted) value where the setter was called *)
Fixpoint req_vals (adj : bool) (mask : list bool) (rq : list (option N)) : list (option N) :=
  match mask, rq with
  | m :: mask', r :: rq' =>
    (match r with Some x => Some (if adj && m && (x =? 0) then 1 else x) | None => None end) :: req_vals adj mask' rq'
  | _, _ => []
  end.

Definition check_field (k : fkind) (existing : N) (required : option N) : bool :=
  match required with
  | None => true
  | Some r => match k with KGe => negb (existing <? r) | KEq => existing =? r end
  end.

Fixpoint verify_fields (tbl : list (fkind * err)) (ex : list N) (rq : list (option N)) : option err :=
  match tbl, ex, rq with
  | (k, e) :: tbl', x :: ex', r :: rq' => if check_field k x r then verify_fields tbl' ex' rq' else Some e
  | _, _, _ => None
  end.

(* MessageTypeDetails::is_compatible_to (requester.is_compatible_to(existing)); blackboard: == *)
Definition td_compat (p : pattern) (rq ex : tdetail) : bool :=
  (td_variant rq =? td_variant ex) && (td_name rq =? td_name ex) && (td_size rq =? td_size ex) &&
  match p with Blackboard => td_align rq =? td_align ex | _ => td_align rq <=? td_align ex end.

Fixpoint types_compat (p : pattern) (rq ex : list tdetail) : bool :=
  match rq, ex with
  | [], [] => true
  | a :: rq', b :: ex' => td_compat p a b && types_compat p rq' ex'
  | _, _ => false
  end.

(* AttributeVerifier::verify_requirements *)
Definition attrs_ok (require : list (N * N)) (keys : list N) (ex : list (N * N)) : bool :=
  forallb (fun kv => existsb (fun a => (fst a =? fst kv) && (snd a =? snd kv)) ex) require &&
  forallb (fun k => existsb (fun a => fst a =? k) ex) keys.

(* verify_service_configuration of the pattern: attributes first, then the table *)
Definition verify (c : scfg) (r : req) (k : opkind) : option err :=
  if negb (attrs_ok (r_require r) (r_keys r) (c_attrs c)) then Some IncompatibleAttributes
  else verify_fields (field_table (r_pat r)) (c_vals c)
                     (req_vals (does_adjust (r_pat r) (r_sized r) k) (adjust_mask (r_pat r)) (r_vals r)).

(* is_service_available of the pattern (payload / key type) followed by verify *)
Definition open_check (c : scfg) (r : req) (k : opkind) : option err :=
  if negb (types_compat (r_pat r) (r_types r) (c_types c)) then Some IncompatibleTypes else verify c r k.

(* the static config a successful creation writes *)
Definition mk_cfg (defs : list N) (r : req) (k : opkind) : scfg :=
  mkCfg (r_pat r)
        (eff_vals (does_adjust (r_pat r) (r_sized r) k) (adjust_mask (r_pat r)) defs (r_vals r))
        (r_types r)
        (match k with KOoc => r_require r | _ => r_define r end).

(* checks of create_impl that run before anything is touched *)
Definition create_precheck (c : scfg) (r : req) : option err :=
  match c_pat c with
  | PubSub =>
    if negb (nth 5 (c_vals c) 0 =? 1) && (nth 2 (c_vals c) 0 <? nth 3 (c_vals c) 0)
    then Some SubscriberBufferMustBeLargerThanHistorySize else None
  | Blackboard => if r_noentries r then Some NoEntriesProvided else None
  | _ => None
  end.

Fixpoint any_zero (mask : list bool) (vs : list N) : bool :=
  match mask, vs with
  | m :: mask', v :: vs' => (m && (v =? 0)) || any_zero mask' vs'
  | _, _ => false
  end.
Definition init_panics (c : scfg) : bool := any_zero (capacity_mask (c_pat c)) (c_vals c).

Definition max_nodes (c : scfg) : N := nth (nodes_index (c_pat c)) (c_vals c) 0.

(* ------------------------------------------------------------------------------------------ *)
(* Part B: protocol                                                                             *)
(* ------------------------------------------------------------------------------------------ *)
Inductive sphase := SLocked | SWritten | SFinal.            (* static config: mode 0600 empty / 0600 written / 0400 *)
Inductive dphase := DAbsent | DCreated | DSized | DFinal.   (* dynamic config: - / size 0 / sized 0200 / 0600 initialised *)

(* One service instance = everything one creation attempt made under its fresh UniqueServiceId.
   The static config FILE NAME is linked to at most one instance (gst.cur); an unlinked inode
   stays readable through descriptors opened before. *)
Record inst := mkInst {
  i_cfg : scfg; i_owner : nat;
  i_st : sphase;
  i_dy : dphase; i_dy_linked : bool;
  i_res : bool;                       (* blackboard resources exist *)
  (* node registry: generation counter (i_locked = it holds the LOCK indicator) and the owners of the populated cells *)
  i_locked : bool; i_gen : nat; i_members : list nat
}.

Inductive side := SOpen | SCreate | SNone.
Inductive result :=
| ROk (i : nat) (c : scfg)
| RErr (s : side) (e : err)
| RPanic
| RDropped | RNoHandle.

Record gst := mkG {
  insts : list inst;
  cur : option nat;                   (* instance whose static config file is linked under the name *)
  tags : list nat;                    (* nodes that have a service tag file *)
  (* ghost, never read by a step *)
  glog : list (nat * opkind * result); (* (thread, inner call that produced it, result) of every returned call, oldest first *)
  gmulti : bool                       (* some release(LockIfLastIndex) reported Locked although ANOTHER release had locked the set *)
}.

Inductive op := OCreate (r : req) | OOpen (r : req) | OOoc (r : req) | ODrop (k : nat).

(* after a clean-up call: what the failing call does next *)
Inductive cont := KRet (k : opkind) (e : err) | KRetPanic | KWaitRetry.

Inductive pc :=
| Idle
(* is_service_available, shared by create and open (file.rs does_exist_cfg + Builder::open + read) *)
| PAccess | POpen1 | PFstat1 (i : nat) | POpen2 | PFstat2 (j : nat) (n : nat) | PRead (j : nat)
(* open *)
| OTagStat (j : nat) | OTagOpen (j : nat) | OTagChmod1 (j : nat) | OTagWrite (j : nat) | OTagChmod2 (j : nat)
| ORes (j : nat) (own : bool)
| ODyOpen (j : nat) (own : bool) (n : nat) | ODyFstatSize (j : nat) (own : bool) (n : nat)
| ODyFstatPerm (j : nat) (own : bool) (n : nat) | OReg (j : nat) (own : bool) | RIncr (j : nat) (own : bool)
(* create *)
| CTagStat | CTagOpen | CTagChmod1 | CTagWrite | CTagChmod2
| CDirStat (own : bool) | CStOpen (own : bool)
| CStChmod1 (own : bool) (i : nat) | CStWrite (own : bool) (i : nat) | CStChmod2 (own : bool) (i : nat)
| CRes (own : bool) (i : nat)
| CDyOpen (own : bool) (i : nat) | CDyTrunc (own : bool) (i : nat) | CDyFstat (own : bool) (i : nat)
| CDyInit (own : bool) (i : nat) | CDyChmod (own : bool) (i : nat)
| CPanicRmStatic (own : bool) (i : nat)
| CFailRmStatic (own : bool) (i : nat) (e : err)   (* a creation step after the static config failed: `?` drops the owned static config *)
(* failure clean-up *)
| PRmTag (c : cont)
(* drop *)
| DRmTag (h : nat) | DDereg (h : nat) | DSnap (h : nat) | DCas (h : nat) (g0 : nat) | DDyChmod (h : nat) | DDyUnlink (h : nat) | DResRemove (h : nat) | DStRemove (h : nat).

Record oocst := mkOoc { o_flux : nat; o_errs : list (side * err); o_used : nat }.

Record lst := mkL {
  prog : list op;
  at_pc : pc;
  cur_req : option req;               (* requirement of the call in progress *)
  cur_kind : opkind;                  (* KCreate / KOpen: which inner call runs; the public op is KOoc iff in_ooc *)
  in_ooc : option oocst;
  used : nat;                         (* sleeps of the inner open call in progress *)
  handles : list (nat * scfg);         (* live port factories: (instance, static_config()) *)
  nreg : nat;                         (* node.registered_services() reference count of this service *)
  regi : option nat;                  (* ... and the instance whose registry holds the node (Some iff nreg > 0) *)
  leaks : list nat;                   (* ghost: instances in which this node left a populated cell behind *)
  rets : list result                  (* ghost *)
}.

(* libc calls and the objects they touch, as the gate reports them *)
Inductive call := CAccess | COpenRd | COpenExcl | CFstat | CRead | CWrite | CChmod | CStat
                | CShmOpen | CShmCreate | CFtruncate | CRemove | CShmUnlink.
Inductive obj := BStatic | BDyn (i : nat) | BTag | BNodeDir | BSvcDir | BRes (i : nat).
Inductive cres := XOk | XEnoent | XEexist | XInit (* fstat: mode still the initial one *) | XFinal | XZero (* fstat: size 0 *)
              | XFail (* injected failure of the call *).
Inductive ev := ECall (c : call) (o : obj) (r : cres) | ERet (r : result) | ESleep.

(* p_recheck: acquire() re-checks the LOCK indicator when it increments the generation counter after populating its
   cell (robust_unique_index_set.rs: `if self.increment_generation_counter(..) == GENERATION_COUNTER_LOCK_INDICATOR`).
   The code does (true); the theorems that need it say so, and are refuted for false. *)
(* p_own_static: create() keeps the ownership of the static config until the creation is complete (builder/mod.rs:
   `unlocked_static_details.release_ownership()` comes after the last fallible step), so that every error exit removes it.
   p_dynfault: environment fault, the shm_open of the dynamic config fails (libgate fault injection). *)
Record params := mkP { p_T : nat; p_defs : pattern -> list N; p_recheck : bool; p_own_static : bool; p_dynfault : bool }.

Definition get_inst (g : gst) (i : nat) : option inst := nth_error (insts g) i.
Definition set_inst (g : gst) (i : nat) (x : inst) : gst := mkG (upd (insts g) i x) (cur g) (tags g) (glog g) (gmulti g).
Definition set_cur (g : gst) (c : option nat) : gst := mkG (insts g) c (tags g) (glog g) (gmulti g).
Definition set_tags (g : gst) (ts : list nat) : gst := mkG (insts g) (cur g) ts (glog g) (gmulti g).
Definition add_log (g : gst) (t : nat) (k : opkind) (r : result) : gst := mkG (insts g) (cur g) (tags g) (glog g ++ [(t, k, r)]) (gmulti g).
Definition add_inst (g : gst) (x : inst) : gst := mkG (insts g ++ [x]) (cur g) (tags g) (glog g) (gmulti g).
Definition set_multi (g : gst) : gst := mkG (insts g) (cur g) (tags g) (glog g) true.

Definition has_tag (g : gst) (t : nat) : bool := existsb (Nat.eqb t) (tags g).
Definition rm_tag (g : gst) (t : nat) : gst := set_tags g (filter (fun x => negb (Nat.eqb x t)) (tags g)).

Definition add_leak (l : lst) (i : nat) : lst :=
  mkL (prog l) (at_pc l) (cur_req l) (cur_kind l) (in_ooc l) (used l) (handles l) (nreg l) (regi l) (i :: leaks l) (rets l).
Definition set_pc (l : lst) (p : pc) : lst :=
  mkL (prog l) p (cur_req l) (cur_kind l) (in_ooc l) (used l) (handles l) (nreg l) (regi l) (leaks l) (rets l).

Definition st_is_init (x : inst) : bool := match i_st x with SFinal => false | _ => true end.

Definition push_err (es : list (side * err)) (e : side * err) : list (side * err) := firstn 5 (e :: es).

(* the public operation returns r *)
Definition op_done_k (k : opkind) (t : nat) (g : gst) (l : lst) (r : result) (hs : list (nat * scfg)) (nr : nat) (ri : option nat) (es : list ev)
  : option (gst * lst * list ev) :=
  Some (add_log g t k r, mkL (prog l) Idle None KOpen None 0 hs nr ri (leaks l) (rets l ++ [r]), es ++ [ERet r]).

Definition op_done (t : nat) (g : gst) (l : lst) (r : result) (hs : list (nat * scfg)) (nr : nat) (es : list ev)
  : option (gst * lst * list ev) :=
  op_done_k (cur_kind l) t g l r hs nr (regi l) es.

(* open_or_create's loop tail: elapsed >= creation_timeout ? fail : sleep and call open again *)
Definition ooc_tail (P : params) (t : nat) (g : gst) (l : lst) (o : oocst) (es : list ev) : option (gst * lst * list ev) :=
  if Nat.leb (p_T P) (o_used o)
  then op_done t g l (if Nat.ltb 1 (o_flux o) then RErr SNone SystemInFlux
                      else match last (map Some (o_errs o)) None with
                           | Some (s, e) => RErr s e | None => RErr SOpen InternalFailure end)
               (handles l) (nreg l) es
  else Some (g, mkL (prog l) PAccess (cur_req l) KOpen (Some (mkOoc (o_flux o) (o_errs o) (S (o_used o)))) 0
                    (handles l) (nreg l) (regi l) (leaks l) (rets l), es ++ [ESleep]).

(* the inner create / open call returns an error *)
Definition call_fails (P : params) (t : nat) (g : gst) (l : lst) (k : opkind) (e : err) (es : list ev)
  : option (gst * lst * list ev) :=
  let s := match k with KCreate => SCreate | _ => SOpen end in
  match in_ooc l with
  | None => op_done t g l (RErr s e) (handles l) (nreg l) es
  | Some o =>
    let o' := mkOoc (o_flux o) (push_err (o_errs o) (s, e)) (o_used o) in
    match k, e with
    | KOpen, DoesNotExist =>
      (* try_create_service: flux_counter += 1; create_call (create_impl checks its configuration first) *)
      let rq := match cur_req l with Some r => r | None => mkReq PubSub true [] [] [] [] [] false None end in
      match create_precheck (mk_cfg (p_defs P (r_pat rq)) rq KOoc) rq with
      | Some e' => op_done t g l (RErr SCreate e') (handles l) (nreg l) es
      | None =>
        Some (g, mkL (prog l) PAccess (cur_req l) KCreate (Some (mkOoc (S (o_flux o)) (o_errs o') (o_used o))) 0
                     (handles l) (nreg l) (regi l) (leaks l) (rets l), es)
      end
    | KOpen, HangsInCreation | KOpen, IsMarkedForDestruction => ooc_tail P t g l o' es
    | KCreate, AlreadyExists => ooc_tail P t g l o' es
    | _, _ => op_done t g l (RErr s e) (handles l) (nreg l) es
    end
  end.

(* the inner create / open call returns a service *)
Definition call_succeeds (k : opkind) (t : nat) (g : gst) (l : lst) (i : nat) (c : scfg) (nr : nat) (es : list ev)
  : option (gst * lst * list ev) :=
  op_done_k k t g l (ROk i c) (handles l ++ [(i, c)]) nr (match regi l with Some r => Some r | None => Some i end) es.

(* open's `wait()`: elapsed > creation_timeout ? HangsInCreation : sleep, then loop *)
Definition wait_retry (P : params) (t : nat) (g : gst) (l : lst) (es : list ev) : option (gst * lst * list ev) :=
  if Nat.leb (p_T P) (used l)
  then call_fails P t g l KOpen HangsInCreation es
  else Some (g, mkL (prog l) PAccess (cur_req l) (cur_kind l) (in_ooc l) (S (used l)) (handles l) (nreg l) (regi l) (leaks l) (rets l),
             es ++ [ESleep]).

Definition run_cont (P : params) (t : nat) (g : gst) (l : lst) (c : cont) (es : list ev) : option (gst * lst * list ev) :=
  match c with
  | KRet k e => call_fails P t g l k e es
  | KRetPanic => op_done t g l RPanic (handles l) (nreg l) es
  | KWaitRetry => wait_retry P t g l es
  end.

(* a failing call first removes the service tag it created itself *)
Definition fail_with_tag (P : params) (t : nat) (g : gst) (l : lst) (own : bool) (c : cont) (es : list ev)
  : option (gst * lst * list ev) :=
  if own then Some (g, set_pc l (PRmTag c), es) else run_cont P t g l c es.

(* HangsInCreation out of is_service_available: create maps it to AlreadyExists, open waits *)
Definition avail_hangs (P : params) (t : nat) (g : gst) (l : lst) (es : list ev) : option (gst * lst * list ev) :=
  match cur_kind l with
  | KCreate => call_fails P t g l KCreate AlreadyExists es
  | _ => wait_retry P t g l es
  end.

(* Ok(None) out of is_service_available *)
Definition avail_none (P : params) (t : nat) (g : gst) (l : lst) (es : list ev) : option (gst * lst * list ev) :=
  match cur_kind l with
  | KCreate => Some (g, set_pc l CTagStat, es)
  | _ => call_fails P t g l KOpen DoesNotExist es
  end.

Definition the_req (l : lst) : req :=
  match cur_req l with Some r => r | None => mkReq PubSub true [] [] [] [] [] false None end.
Definition public_kind (l : lst) : opkind := match in_ooc l with Some _ => KOoc | None => cur_kind l end.

Definition start_call (P : params) (t : nat) (g : gst) (l : lst) (r : req) (k : opkind) (o : option oocst)
  : option (gst * lst * list ev) :=
  let l' := mkL (prog l) PAccess (Some r) k o 0 (handles l) (nreg l) (regi l) (leaks l) (rets l) in
  match k with
  | KCreate =>
    (* create_impl: configuration checks before is_service_available *)
    match create_precheck (mk_cfg (p_defs P (r_pat r)) r (public_kind l')) r with
    | Some e => op_done t g l' (RErr SCreate e) (handles l) (nreg l) []
    | None => Some (g, l', [])
    end
  | _ => Some (g, l', [])
  end.

Definition with_inst (g : gst) (i : nat) (k : inst -> option (gst * lst * list ev)) : option (gst * lst * list ev) :=
  match get_inst g i with Some x => k x | None => None end.

Definition upd_st (x : inst) (s : sphase) : inst :=
  mkInst (i_cfg x) (i_owner x) s (i_dy x) (i_dy_linked x) (i_res x) (i_locked x) (i_gen x) (i_members x).
Definition upd_dy (x : inst) (d : dphase) (lk : bool) : inst :=
  mkInst (i_cfg x) (i_owner x) (i_st x) d lk (i_res x) (i_locked x) (i_gen x) (i_members x).
Definition upd_res (x : inst) (b : bool) : inst :=
  mkInst (i_cfg x) (i_owner x) (i_st x) (i_dy x) (i_dy_linked x) b (i_locked x) (i_gen x) (i_members x).
Definition upd_reg (x : inst) (lk : bool) (gn : nat) (ms : list nat) : inst :=
  mkInst (i_cfg x) (i_owner x) (i_st x) (i_dy x) (i_dy_linked x) (i_res x) lk gn ms.

Definition has_res (p : pattern) : bool := match p with Blackboard => true | _ => false end.

Definition step (P : params) (t : nat) (g : gst) (l : lst) : option (gst * lst * list ev) :=
  let rq := the_req l in
  match at_pc l with
  | Idle =>
    match prog l with
    | [] => None
    | o :: p =>
      let l0 := mkL p Idle None KOpen None 0 (handles l) (nreg l) (regi l) (leaks l) (rets l) in
      match o with
      | OCreate r => start_call P t g l0 r KCreate None
      | OOpen r => start_call P t g l0 r KOpen None
      | OOoc r => start_call P t g l0 r KOpen (Some (mkOoc 0 [] 0))
      | ODrop k =>
        match nth_error (handles l) k with
        | None => op_done t g l0 RNoHandle (handles l) (nreg l) []
        | Some (h, _) =>
          let hs := firstn k (handles l) ++ skipn (S k) (handles l) in
          let l1 := mkL p Idle None KOpen None 0 hs (nreg l) (regi l) (leaks l) (rets l) in
          (* registered_services().remove: only the node's last handle of the service cleans up *)
          if Nat.eqb (nreg l) 1 then Some (g, mkL p (DRmTag h) None KOpen None 0 hs 0 None (leaks l) (rets l), [])
          else op_done t g l1 RDropped hs (Nat.pred (nreg l)) []
        end
      end
    end
  (* ---- is_service_available ---- *)
  | PAccess =>                                  (* File::does_exist: access(path, F_OK) *)
    match cur g with
    | None => avail_none P t g l [ECall CAccess BStatic XEnoent]
    | Some _ => Some (g, set_pc l POpen1, [ECall CAccess BStatic XOk])
    end
  | POpen1 =>                                   (* does_exist_cfg: open_existing(Read) *)
    match cur g with
    | None => avail_none P t g l [ECall COpenRd BStatic XEnoent]
    | Some i => Some (g, set_pc l (PFstat1 i), [ECall COpenRd BStatic XOk])
    end
  | PFstat1 i =>                                (* metadata().permission() == INIT_PERMISSIONS ? *)
    with_inst g i (fun x =>
      if st_is_init x then avail_hangs P t g l [ECall CFstat BStatic XInit]
      else Some (g, set_pc l POpen2, [ECall CFstat BStatic XFinal]))
  | POpen2 =>                                   (* Builder::open: open_existing(Read) *)
    match cur g with
    | None => avail_none P t g l [ECall COpenRd BStatic XEnoent]
    | Some j => Some (g, set_pc l (PFstat2 j 0), [ECall COpenRd BStatic XOk])
    end
  | PFstat2 j n =>                              (* loop { metadata(); INIT ? (elapsed > timeout ? fail : wait) : return } *)
    with_inst g j (fun x =>
      if st_is_init x
      then if Nat.ltb (p_T P) n then avail_hangs P t g l [ECall CFstat BStatic XInit]
           else Some (g, set_pc l (PFstat2 j (S n)), [ECall CFstat BStatic XInit; ESleep])
      else Some (g, set_pc l (PRead j), [ECall CFstat BStatic XFinal]))
  | PRead j =>                                  (* storage.read + deserialize + pattern's type check *)
    with_inst g j (fun x =>
      let e := [ECall CRead BStatic XOk] in
      match cur_kind l with
      | KCreate => call_fails P t g l KCreate AlreadyExists e
      | _ =>
        match open_check (i_cfg x) rq (public_kind l) with
        | Some er => call_fails P t g l KOpen er e          (* nothing was touched *)
        | None => Some (g, set_pc l (OTagStat j), e)
        end
      end)
  (* ---- open ---- *)
  | OTagStat j => Some (g, set_pc l (OTagOpen j), [ECall CStat BNodeDir XOk])
  | OTagOpen j =>                               (* create_service_tag: AlreadyExists => Ok(None) *)
    if has_tag g t then Some (g, set_pc l (if has_res (r_pat rq) then ORes j false else ODyOpen j false 0), [ECall COpenExcl BTag XEexist])
    else Some (set_tags g (t :: tags g), set_pc l (OTagChmod1 j), [ECall COpenExcl BTag XOk])
  | OTagChmod1 j => Some (g, set_pc l (OTagWrite j), [ECall CChmod BTag XInit])
  | OTagWrite j => Some (g, set_pc l (OTagChmod2 j), [ECall CWrite BTag XOk])
  | OTagChmod2 j => Some (g, set_pc l (if has_res (r_pat rq) then ORes j true else ODyOpen j true 0), [ECall CChmod BTag XFinal])
  | ORes j own =>                               (* open_service_resource: failure => ServiceInCorruptedState *)
    with_inst g j (fun x =>
      if i_res x then Some (g, set_pc l (ODyOpen j own 0), [ECall CShmOpen (BRes j) XOk])
      else fail_with_tag P t g l own (KRet KOpen ServiceInCorruptedState) [ECall CShmOpen (BRes j) XEnoent])
  | ODyOpen j own n =>                          (* open_impl: SharedMemoryBuilder::open_existing *)
    with_inst g j (fun x =>
      if i_dy_linked x then Some (g, set_pc l (ODyFstatSize j own n), [ECall CShmOpen (BDyn j) XOk])
      else fail_with_tag P t g l own KWaitRetry [ECall CShmOpen (BDyn j) XEnoent])
  | ODyFstatSize j own n =>                     (* size 0 => MappingSizeIsZero: elapsed >= timeout ? fail : retry (868edb1) *)
    with_inst g j (fun x =>
      match i_dy x with
      | DCreated => if Nat.leb (p_T P) n
                    then fail_with_tag P t g l own KWaitRetry [ECall CFstat (BDyn j) XZero]
                    else Some (g, set_pc l (ODyOpen j own (S n)), [ECall CFstat (BDyn j) XZero; ESleep])
      | _ => Some (g, set_pc l (ODyFstatPerm j own n), [ECall CFstat (BDyn j) XOk])
      end)
  | ODyFstatPerm j own n =>                     (* permission has OWNER_READ ? : elapsed >= timeout ? fail : retry *)
    with_inst g j (fun x =>
      match i_dy x with
      | DFinal => Some (g, set_pc l (OReg j own), [ECall CFstat (BDyn j) XFinal])
      | _ => if Nat.leb (p_T P) n
             then fail_with_tag P t g l own KWaitRetry [ECall CFstat (BDyn j) XInit]
             else Some (g, set_pc l (ODyOpen j own (S n)), [ECall CFstat (BDyn j) XInit; ESleep])
      end)
  | OReg j own =>                               (* registered_services().add_or(.. register_node_id ..): acquire, part 1 *)
    with_inst g j (fun x =>
      if Nat.ltb 0 (nreg l) then call_succeeds KOpen t g l j (i_cfg x) (S (nreg l)) []
      else if i_locked x then fail_with_tag P t g l own (KRet KOpen IsMarkedForDestruction) []      (* generation counter holds LOCK *)
      else if N.leb (max_nodes (i_cfg x)) (lenN (i_members x))
           then fail_with_tag P t g l own (KRet KOpen ExceedsMaxNumberOfNodes) []
      else Some (set_inst g j (upd_reg x false (i_gen x) (i_members x ++ [t])), set_pc l (RIncr j own), []))   (* cell CAS EMPTY -> owner *)
  | RIncr j own =>                              (* acquire, part 2: increment_generation_counter, LOCK re-checked *)
    with_inst g j (fun x =>
      if i_locked x
      then if p_recheck P
           then fail_with_tag P t g (add_leak l j) own (KRet KOpen IsMarkedForDestruction) []   (* the cell stays populated *)
           else call_succeeds KOpen t g l j (i_cfg x) 1 []
      else call_succeeds KOpen t (set_inst g j (upd_reg x false (S (i_gen x)) (i_members x))) l j (i_cfg x) 1 [])
  (* ---- create ---- *)
  | CTagStat => Some (g, set_pc l CTagOpen, [ECall CStat BNodeDir XOk])
  | CTagOpen =>
    if has_tag g t then Some (g, set_pc l (CDirStat false), [ECall COpenExcl BTag XEexist])
    else Some (set_tags g (t :: tags g), set_pc l CTagChmod1, [ECall COpenExcl BTag XOk])
  | CTagChmod1 => Some (g, set_pc l CTagWrite, [ECall CChmod BTag XInit])
  | CTagWrite => Some (g, set_pc l CTagChmod2, [ECall CWrite BTag XOk])
  | CTagChmod2 => Some (g, set_pc l (CDirStat true), [ECall CChmod BTag XFinal])
  | CDirStat own => Some (g, set_pc l (CStOpen own), [ECall CStat BSvcDir XOk])
  | CStOpen own =>                              (* create_locked: O_CREAT|O_EXCL with INIT_PERMISSIONS *)
    match cur g with
    | Some _ => fail_with_tag P t g l own (KRet KCreate AlreadyExists) [ECall COpenExcl BStatic XEexist]
    | None =>
      let i := length (insts g) in
      let c := mk_cfg (p_defs P (r_pat rq)) rq (public_kind l) in
      Some (set_cur (add_inst g (mkInst c t SLocked DAbsent false false false 0 [])) (Some i),
            set_pc l (CStChmod1 own i), [ECall COpenExcl BStatic XOk])
    end
  | CStChmod1 own i => Some (g, set_pc l (CStWrite own i), [ECall CChmod BStatic XInit])
  | CStWrite own i =>                           (* unlock: write the serialized config *)
    with_inst g i (fun x => Some (set_inst g i (upd_st x (match i_st x with SLocked => SWritten | s => s end)), set_pc l (CStChmod2 own i), [ECall CWrite BStatic XOk]))
  | CStChmod2 own i =>                          (* unlock: FINAL_PERMISSIONS *)
    with_inst g i (fun x =>
      Some (set_inst g i (upd_st x SFinal),
            set_pc l (if has_res (r_pat rq) || (match r_resfail rq with Some _ => true | None => false end) then CRes own i else CDyOpen own i),
            [ECall CChmod BStatic XFinal]))
  | CRes own i =>                               (* create_service_resource(&service_config)? *)
    match r_resfail rq with
    | Some e => Some (g, set_pc l (CFailRmStatic own i e), [])
    | None => with_inst g i (fun x => Some (set_inst g i (upd_res x true), set_pc l (CDyOpen own i), [ECall CShmCreate (BRes i) XOk]))
    end
  | CDyOpen own i =>                            (* create_impl: shm_open(O_CREAT|O_EXCL, INIT_PERMISSIONS) *)
    if p_dynfault P then Some (g, set_pc l (CFailRmStatic own i InternalFailure), [ECall CShmCreate (BDyn i) XFail]) else
    with_inst g i (fun x => Some (set_inst g i (upd_dy x (match i_dy x with DAbsent => DCreated | d => d end) true), set_pc l (CDyTrunc own i), [ECall CShmCreate (BDyn i) XOk]))
  | CDyTrunc own i =>
    with_inst g i (fun x => Some (set_inst g i (upd_dy x (match i_dy x with DCreated => DSized | d => d end) true), set_pc l (CDyFstat own i), [ECall CFtruncate (BDyn i) XOk]))
  | CDyFstat own i => Some (g, set_pc l (CDyInit own i), [ECall CFstat (BDyn i) XOk])
  | CDyInit own i =>                            (* initializer: DynamicConfig::init + register_node_id(creator) *)
    with_inst g i (fun x =>
      if init_panics (i_cfg x) then Some (g, set_pc l (CPanicRmStatic own i), [])
      else Some (set_inst g i (upd_reg x false 1 [t]), set_pc l (CDyChmod own i), []))
  | CDyChmod own i =>                           (* version stamp, then FINAL_PERMISSIONS *)
    with_inst g i (fun x =>
      if Nat.ltb 0 (nreg l)
      then (* registered_services().add: fatal_panic "already registered".  Unreachable as long as a registered node
              finds its service's static config linked (proofs/ServiceRegistryProofs.v); the unwinding is not modelled *)
           op_done t (set_inst g i (upd_dy x DFinal true)) (add_leak l i) RPanic (handles l) (nreg l) [ECall CChmod (BDyn i) XFinal]
      else call_succeeds KCreate t (set_inst g i (upd_dy x DFinal true)) l i (i_cfg x) 1 [ECall CChmod (BDyn i) XFinal])
  | CPanicRmStatic own i =>                     (* unwinding: the owned static config is removed, the dynamic one is not owned *)
    fail_with_tag P t (set_cur g None) l own KRetPanic [ECall CRemove BStatic XOk]
  | CFailRmStatic own i e =>                    (* error exit of create after create_locked *)
    if p_own_static P
    then fail_with_tag P t (set_cur g None) l own (KRet KCreate e) [ECall CRemove BStatic XOk]
    else fail_with_tag P t g l own (KRet KCreate e) []
  (* ---- clean-up ---- *)
  | PRmTag c => run_cont P t (rm_tag g t) l c [ECall CRemove BTag XOk]
  (* ---- drop ---- *)
  | DRmTag h => Some (rm_tag g t, set_pc l (DDereg h), [ECall CRemove BTag XOk])
  | DDereg h =>                                 (* release, part 1: cell CAS owner -> EMPTY, increment_generation_counter *)
    with_inst g h (fun x =>
      let ms := filter (fun y => negb (Nat.eqb y t)) (i_members x) in
      Some (set_inst g h (upd_reg x (i_locked x) (if i_locked x then i_gen x else S (i_gen x)) ms), set_pc l (DSnap h), []))
  | DSnap h =>                                  (* lock(): is_locked() ? Locked : borrowed_indices_and_generation_counter() *)
    with_inst g h (fun x =>
      if i_locked x then Some (set_multi g, set_pc l (DDyChmod h), [])       (* Locked although somebody else locked: NoMoreOwners again *)
      else match i_members x with
           | [] => Some (set_inst g h (upd_reg x false (S (i_gen x)) []), set_pc l (DCas h (S (i_gen x))), [])
           | _ => op_done t (set_inst g h (upd_reg x false (S (i_gen x)) (i_members x))) l RDropped (handles l) 0 []   (* Unlocked: HasOwners *)
           end)
  | DCas h g0 =>                                (* compare_exchange(state.generation_counter, LOCK) *)
    with_inst g h (fun x =>
      if i_locked x then Some (set_multi g, set_pc l (DDyChmod h), [])       (* retry sees (LOCK, 0): CAS(LOCK, LOCK) succeeds *)
      else if Nat.eqb (i_gen x) g0 then Some (set_inst g h (upd_reg x true (i_gen x) (i_members x)), set_pc l (DDyChmod h), [])
      else Some (g, set_pc l (DSnap h), []))
  | DDyChmod h => Some (g, set_pc l (DDyUnlink h), [ECall CChmod (BDyn h) XFinal])
  | DDyUnlink h =>
    with_inst g h (fun x =>
      Some (set_inst g h (upd_dy x (i_dy x) false),
            set_pc l (if i_res x then DResRemove h else DStRemove h), [ECall CShmUnlink (BDyn h) XOk]))
  | DResRemove h =>
    with_inst g h (fun x => Some (set_inst g h (upd_res x false), set_pc l (DStRemove h), [ECall CShmUnlink (BRes h) XOk]))
  | DStRemove h =>                              (* static config last: File::remove(path) *)
    op_done t (set_cur g None) l RDropped (handles l) 0 [ECall CRemove BStatic XOk]
  end.

Definition g_init : gst := mkG [] None [] [] false.
Definition l_init (p : list op) : lst := mkL p Idle None KOpen None 0 [] 0 None [] [].
Definition init (progs : nat -> list op) : cfg gst lst := (g_init, fun t => l_init (progs t)).

(* ---- observations used by the ties ---- *)
(* Service::does_exist: the static config is linked and readable (open(Duration::ZERO)) *)
Definition does_exist (g : gst) : bool :=
  match cur g with
  | Some i => match get_inst g i with Some x => negb (st_is_init x) | None => false end
  | None => false
  end.
(* directory listing: (static config files, dynamic config segments, service tags) *)
Definition listing (g : gst) : nat * nat * nat :=
  ((match cur g with Some _ => 1 | None => 0 end)%nat,
   length (filter i_dy_linked (insts g)),
   length (tags g)).

(* ------------------------------------------------------------------------------------------ *)
(* Part C: reference specification of ONE service name used sequentially (the oracle of the G3  *)
(* tie): a service is its creator's settings plus the multiset of nodes holding it.            *)
(* ------------------------------------------------------------------------------------------ *)
Record spst := mkSp { sp_svc : option (scfg * list nat) }.
Definition sp_init : spst := mkSp None.

Definition distinct_nodes (hs : list nat) : list nat := nodup Nat.eq_dec hs.

Definition sp_create (defs : list N) (s : spst) (n : nat) (r : req) (k : opkind) : spst * result :=
  let c := mk_cfg defs r k in
  match create_precheck c r with
  | Some e => (s, RErr SCreate e)
  | None =>
    match sp_svc s with
    | Some _ => (s, RErr SCreate AlreadyExists)
    | None =>
      match r_resfail r with
      | Some e => (s, RErr SCreate e)               (* a failing creation leaves nothing behind *)
      | None => if init_panics c then (s, RPanic) else (mkSp (Some (c, [n])), ROk 0 c)
      end
    end
  end.

Definition sp_open (s : spst) (n : nat) (r : req) (k : opkind) : spst * result :=
  match sp_svc s with
  | None => (s, RErr SOpen DoesNotExist)
  | Some (c, hs) =>
    match open_check c r k with
    | Some e => (s, RErr SOpen e)
    | None =>
      if negb (existsb (Nat.eqb n) hs) && N.leb (max_nodes c) (lenN (distinct_nodes hs))
      then (s, RErr SOpen ExceedsMaxNumberOfNodes)
      else (mkSp (Some (c, hs ++ [n])), ROk 0 c)
    end
  end.

Fixpoint remove_one (n : nat) (hs : list nat) : list nat :=
  match hs with
  | [] => []
  | h :: t => if Nat.eqb h n then t else h :: remove_one n t
  end.

(* the harness tells which node held the dropped handle *)
Definition sp_drop (s : spst) (n : nat) : spst * result :=
  match sp_svc s with
  | None => (s, RNoHandle)
  | Some (c, hs) =>
    match remove_one n hs with
    | [] => (mkSp None, RDropped)
    | hs' => (mkSp (Some (c, hs')), RDropped)
    end
  end.

Definition sp_ooc (defs : list N) (s : spst) (n : nat) (r : req) : spst * result :=
  match sp_svc s with
  | None => sp_create defs s n r KOoc
  | Some _ => sp_open s n r KOoc
  end.

Definition sp_exists (s : spst) : bool := match sp_svc s with Some _ => true | None => false end.
