(* Concrete model of iceoryx2-bb/container/src/queue.rs (MetaQueue), field for field:
   start, len, capacity, and the data buffer.  `start` only ever grows (unchecked_push);
   the slot of logical index i is (start - len + i) mod capacity.  A capacity of 0 makes
   every `% capacity` a Rust panic ("attempt to calculate the remainder with a divisor of
   zero"); the model returns Panic there instead of Coq's n mod 0 = n. *)
From V Require Import model.Base.

Record rq := { start : N; len : N; cap : N; data : list N }.

Definition rq_new (c : N) : rq :=
  {| start := 0; len := 0; cap := c; data := repeat 0%N (N.to_nat c) |}.

Definition rq_is_empty (q : rq) : bool := N.eqb (len q) 0.
Definition rq_is_full (q : rq) : bool := N.eqb (len q) (cap q).

(* unchecked_push: index = start % capacity; write; start += 1; len += 1 *)
Definition rq_unchecked_push (q : rq) (v : N) : res rq :=
  if N.eqb (cap q) 0 then Panic else
  let i := N.modulo (start q) (cap q) in
  Val {| start := start q + 1; len := len q + 1; cap := cap q; data := updN (data q) i v |}.

(* pop_impl: None if empty; index = (start - len) % capacity; len -= 1; take the value *)
Definition rq_pop (q : rq) : res (rq * option N) :=
  if rq_is_empty q then Val (q, None) else
  if N.eqb (cap q) 0 then Panic else
  let i := N.modulo (start q - len q) (cap q) in
  Val ({| start := start q; len := len q - 1; cap := cap q; data := data q |},
       Some (nthN (data q) i 0%N)).

Definition rq_peek (q : rq) : res (option N) :=
  if rq_is_empty q then Val None else
  if N.eqb (cap q) 0 then Panic else
  Val (Some (nthN (data q) (N.modulo (start q - len q) (cap q)) 0%N)).

(* push_impl: false if len == capacity *)
Definition rq_push (q : rq) (v : N) : res (rq * bool) :=
  if N.eqb (len q) (cap q) then Val (q, false) else
  match rq_unchecked_push q v with
  | Val q' => Val (q', true)
  | Panic => Panic
  end.

(* push_with_overflow_impl: pop when full, then unchecked_push *)
Definition rq_push_overflow (q : rq) (v : N) : res (rq * option N) :=
  if N.eqb (cap q) 0 then Val (q, Some v) (* fix: F6, zero-capacity queue hands the value straight back *) else
  if N.eqb (len q) (cap q) then
    match rq_pop q with
    | Panic => Panic
    | Val (q1, old) =>
      match rq_unchecked_push q1 v with
      | Val q2 => Val (q2, old)
      | Panic => Panic
      end
    end
  else
    match rq_unchecked_push q v with
    | Val q2 => Val (q2, None)
    | Panic => Panic
    end.

(* get(index): fatal_panic if len <= index *)
Definition rq_get (q : rq) (i : N) : res N :=
  if N.leb (len q) i then Panic else
  if N.eqb (cap q) 0 then Panic else
  Val (nthN (data q) (N.modulo (start q - len q + i) (cap q)) 0%N).

(* clear_impl: while pop().is_some() {} -- structurally: len times *)
Fixpoint rq_clear_fuel (fuel : nat) (q : rq) (dropped : list N) : res (rq * list N) :=
  match fuel with
  | O => Val (q, dropped)
  | S f =>
    match rq_pop q with
    | Panic => Panic
    | Val (q', None) => Val (q', dropped)
    | Val (q', Some v) => rq_clear_fuel f q' (dropped ++ [v])
    end
  end.
Definition rq_clear (q : rq) : res (rq * list N) := rq_clear_fuel (S (N.to_nat (len q))) q [].

(* ---- operations and observations used by the correspondence harness ---- *)
Inductive qop := QPush (v : N) | QPushOverflow (v : N) | QPop | QPeek | QGet (i : N) | QClear | QLen.

Inductive qobs :=
| OBool (b : bool) | OOpt (o : option N) | ONum (n : N) | OList (l : list N) | OPanic.

Definition rq_step (q : rq) (o : qop) : rq * qobs :=
  match o with
  | QPush v => match rq_push q v with Val (q', b) => (q', OBool b) | Panic => (q, OPanic) end
  | QPushOverflow v => match rq_push_overflow q v with Val (q', r) => (q', OOpt r) | Panic => (q, OPanic) end
  | QPop => match rq_pop q with Val (q', r) => (q', OOpt r) | Panic => (q, OPanic) end
  | QPeek => match rq_peek q with Val r => (q, OOpt r) | Panic => (q, OPanic) end
  | QGet i => match rq_get q i with Val r => (q, ONum r) | Panic => (q, OPanic) end
  | QClear => match rq_clear q with Val (q', l) => (q', OList l) | Panic => (q, OPanic) end
  | QLen => (q, ONum (len q))
  end.

(* ---- the reference: an unbounded FIFO (list, oldest first) with a capacity guard ---- *)
Record sq := { scap : N; items : list N }.
Definition sq_new (c : N) : sq := {| scap := c; items := [] |}.

Definition sq_step (s : sq) (o : qop) : sq * qobs :=
  match o with
  | QPush v =>
    if N.ltb (lenN (items s)) (scap s)
    then ({| scap := scap s; items := items s ++ [v] |}, OBool true)
    else (s, OBool false)
  | QPushOverflow v =>
    if N.eqb (scap s) 0 then (s, OOpt (Some v)) (* nothing fits: the pushed value is the evicted one *)
    else if N.ltb (lenN (items s)) (scap s)
    then ({| scap := scap s; items := items s ++ [v] |}, OOpt None)
    else ({| scap := scap s; items := tl (items s) ++ [v] |}, OOpt (hd_error (items s)))
  | QPop => ({| scap := scap s; items := tl (items s) |}, OOpt (hd_error (items s)))
  | QPeek => (s, OOpt (hd_error (items s)))
  | QGet i => if N.ltb i (lenN (items s)) then (s, ONum (nthN (items s) i 0%N)) else (s, OPanic)
  | QClear => ({| scap := scap s; items := [] |}, OList (items s))
  | QLen => (s, ONum (lenN (items s)))
  end.
